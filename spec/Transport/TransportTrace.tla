--------------------------- MODULE TransportTrace ---------------------------
(* Trace validation: every recorded call on the two real brontide.Machines   *)
(* (and every recorded move of the scripted adversary on the byte pipes)     *)
(* must be the corresponding Transport action, and what the real code        *)
(* answered - error class, Flush count, buffered bytes left, bytes in        *)
(* flight, send/receive nonces, key fingerprints, delivered payload hash -   *)
(* must equal the model's state after that action.  Real constants:          *)
(* LEN = 2, MAC = 16, ROT = 1000.                                            *)
EXTENDS Transport, Json
VARIABLES l,
          kmap     \* learned: abstract key (name, epoch) <-> fingerprint of the real 32-byte key

Trace == ndJsonDeserialize("trace.ndjson")
Last == Trace[l - 1]
tv == <<vars, l, kmap>>

TInit == Init /\ l = 1 /\ kmap = {}
Is(a) == l <= Len(Trace) /\ Trace[l].a = a /\ l' = l + 1
T == Trace[l]

\* after the step: what the real machines report as their keys, against the model's (key, epoch)
Learn ==
  kmap' = kmap \cup
     UNION {IF hs'[m] = "done"
            THEN {[id |-> <<snd'[m].key, snd'[m].ep>>, fp |-> IF m = "A" THEN T.Ask ELSE T.Bsk],
                  [id |-> <<rcv'[m].key, rcv'[m].ep>>, fp |-> IF m = "A" THEN T.Ark ELSE T.Brk]}
            ELSE {} : m \in Machines}

Reset == /\ Is("Reset")
         /\ hs' = [m \in Machines |-> "init"] /\ target' = "unset" /\ tr' = [m \in Machines |-> "s"]
         /\ act' = NoAct /\ tampered' = FALSE
         /\ snd' = [m \in Machines |-> NoCipher] /\ rcv' = [m \in Machines |-> NoCipher]
         /\ pend' = [m \in Machines |-> NoPend]
         /\ pipe' = [d \in Dirs |-> <<>>] /\ closed' = [d \in Dirs |-> FALSE] /\ lastmsg' = [d \in Dirs |-> <<>>]
         /\ nsent' = [d \in Dirs |-> 0] /\ dl' = [d \in Dirs |-> [n |-> 0, bad |-> <<>>]]
         /\ rfail' = [d \in Dirs |-> FALSE]
         /\ fl' = [m \in Machines |-> [size |-> 0, got |-> 0]]
         /\ used' = {} /\ hw' = [m \in Machines |-> NoCipher] /\ reuse' = FALSE
         /\ nadv' = 0
         /\ last' = Obs("init", "", "")
         /\ kmap' = {}

AdvNames == {"Corrupt", "Truncate", "Drop", "Swap", "Replay", "ReplayOld", "Reflect"}

TNext ==
  \/ Reset
  \/ /\ \/ Is("GenActOne") /\ GenActOne(T.kind)
        \/ Is("RecvActOne") /\ RecvActOne
        \/ Is("GenActTwo") /\ GenActTwo
        \/ Is("RecvActTwo") /\ RecvActTwo
        \/ Is("GenActThree") /\ GenActThree
        \/ Is("RecvActThree") /\ RecvActThree
        \/ Is("AlterAct") /\ AlterAct(T.kind)
        \/ Is("OldActOne") /\ OldActOne
        \/ Is("Write") /\ Write(T.m, T.size, T.v, T.h)
        \/ Is("Flush") /\ Flush(T.m, T.k)
        \/ Is("Read") /\ (Read(T.d) \/ ReadAfterFailure(T.d))
        \/ l <= Len(Trace) /\ T.a \in AdvNames /\ l' = l + 1
             /\ DoAdv(T.d, [a |-> T.a, o1 |-> T.o1, o2 |-> T.o2, o3 |-> T.o3])
     /\ Learn
  \/ (l = Len(Trace) + 1 /\ UNCHANGED tv)
TSpec == TInit /\ [][TNext]_tv

Live == l > 1 /\ Last.a # "Reset"
Done(m) == hs[m] = "done"

\* the error class of the call
ConformErr == Live => Last.err = last.err
\* Flush's return value: plaintext bytes written by this call
ConformFlush == (Live /\ Last.a = "Flush") => Last.nn = last.nn
\* len(nextHeaderSend), len(nextBodySend) of both machines
ConformPend == Live => /\ (Done("A") => Last.Ahl = pend["A"].hl /\ Last.Abl = pend["A"].bl)
                       /\ (Done("B") => Last.Bhl = pend["B"].hl /\ Last.Bbl = pend["B"].bl)
\* bytes in flight in both directions
ConformPipe == Live => Last.Lab = Total(pipe["ab"]) /\ Last.Lba = Total(pipe["ba"])
\* sendCipher.nonce / recvCipher.nonce of both machines
ConformNonce == Live => /\ (Done("A") => Last.Asn = snd["A"].n /\ Last.Arn = rcv["A"].n)
                        /\ (Done("B") => Last.Bsn = snd["B"].n /\ Last.Brn = rcv["B"].n)
\* the delivered bytes are the bytes of the message the model says was delivered
ConformPayload == (Live /\ Last.a = "Read" /\ last.err = "" /\ last.did > 0) => Last.h = last.dh
\* one real key per abstract (key, epoch) and one abstract (key, epoch) per real key:
\* send(p) = recv(q), the four directions' keys differ, rotation exactly every ROT uses,
\* and - with ConformNonce and NoNonceReuse - no (real key, nonce) pair encrypts twice
KeyBijection == \A x, y \in kmap : (x.id = y.id) <=> (x.fp = y.fp)
=============================================================================
