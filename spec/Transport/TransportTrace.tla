--------------------------- MODULE TransportTrace ---------------------------
(* Trace validation: every recorded call on the two real brontide.Machines   *)
(* (and every recorded move of the scripted adversary on the byte pipes)     *)
(* must be the corresponding Transport action, and what the real code        *)
(* answered - error class, Flush count, buffered bytes left, bytes in        *)
(* flight, send/receive nonces, key fingerprints, delivered payload hash -   *)
(* must equal the model's state after that action.  Real constants:          *)
(* LEN = 2, MAC = 16, ROT = 1000.                                            *)
EXTENDS Transport, Json
CONSTANT ConnEmptyEOFQuirk   \* TRUE: follow the code where Conn.Read answers a delivered EMPTY message with io.EOF
VARIABLES l,
          kmap,    \* learned: abstract key (name, epoch) <-> fingerprint of the real 32-byte key
          rbuf,    \* machine -> bytes left in its Conn.readBuf, and the hash of the message they belong to
          clast    \* observation of the last Conn.Read / Conn.Write: [n, err]

Trace == ndJsonDeserialize("trace.ndjson")
Last == Trace[l - 1]
tv == <<vars, l, kmap, rbuf, clast>>
NoBuf == [left |-> 0, h |-> ""]

TInit == Init /\ l = 1 /\ kmap = {} /\ rbuf = [m \in Machines |-> NoBuf] /\ clast = [n |-> 0, err |-> ""]
Is(a) == l <= Len(Trace) /\ Trace[l].a = a /\ l' = l + 1
T == Trace[l]

\* after the step: what the real machines report as their keys, against the model's (key, epoch)
Learn ==
  kmap' = kmap \cup
     UNION {IF hs'[m] = "done"
            THEN {[id |-> <<snd'[m].key, snd'[m].ep>>, fp |-> IF m = "A" THEN T.Ask ELSE T.Bsk],
                  [id |-> <<rcv'[m].key, rcv'[m].ep>>, fp |-> IF m = "A" THEN T.Ark ELSE T.Brk]}
            ELSE {} : m \in Machines}

Reset == /\ Is("Reset")
         /\ hs' = [m \in Machines |-> "init"] /\ target' = "unset" /\ tr' = [m \in Machines |-> "s"]
         /\ act' = NoAct /\ tampered' = FALSE
         /\ snd' = [m \in Machines |-> NoCipher] /\ rcv' = [m \in Machines |-> NoCipher]
         /\ pend' = [m \in Machines |-> NoPend]
         /\ pipe' = [d \in Dirs |-> <<>>] /\ closed' = [d \in Dirs |-> FALSE] /\ lastmsg' = [d \in Dirs |-> <<>>]
         /\ nsent' = [d \in Dirs |-> 0] /\ dl' = [d \in Dirs |-> [n |-> 0, bad |-> <<>>]]
         /\ rfail' = [d \in Dirs |-> FALSE]
         /\ fl' = [m \in Machines |-> [size |-> 0, got |-> 0]]
         /\ used' = {} /\ hw' = [m \in Machines |-> NoCipher] /\ reuse' = FALSE
         /\ nadv' = 0
         /\ last' = Obs("init", "", "")
         /\ kmap' = {} /\ rbuf' = [m \in Machines |-> NoBuf] /\ clast' = [n |-> 0, err |-> ""]

-----------------------------------------------------------------------------
(* brontide.Conn on top of the Machine (conn.go): Write = WriteMessage+Flush *)
(* per chunk of at most MaxSize bytes (here: onto a writer that never times  *)
(* out), Read = ReadMessage into readBuf when it is empty, then copy out.    *)

\* the chunks of Conn.Write(b), len(b) = size, appended to the stream P, starting in cipher state c with message id
RECURSIVE Chunks(_, _, _, _, _, _, _)
Chunks(d, c, P, id, rest, hseq, v) ==
  LET s  == Min(rest, MaxSize)
      c2 == Adv(c)
      P2 == AppendPiece(AppendPiece(P, Piece(Ct(d, c, id, "h", HDR, s, ""), 0, HDR)),
                        Piece(Ct(d, c2, id, "b", s + MAC, IF s = LEN THEN v ELSE -1, Head(hseq)), 0, s + MAC))
  IN IF rest - s = 0 THEN [c |-> Adv(c2), lastc |-> c2, pipe |-> P2, id |-> id, lasts |-> s]
     ELSE Chunks(d, Adv(c2), P2, id + 1, rest - s, Tail(hseq), v)

CWrite(m, size, hseq, v) ==
  LET d == DirOf(m) IN
  /\ hs[m] = "done"
  /\ IF pend[m] # NoPend THEN
        /\ clast' = [n |-> 0, err |-> "notflushed"]
        /\ last' = Obs("CWrite", m, "notflushed")
        /\ UNCHANGED tvars
     ELSE
        LET r == Chunks(d, snd[m], pipe[d], nsent[d] + 1, size, hseq, v) IN
        /\ snd' = [snd EXCEPT ![m] = r.c]
        /\ pipe' = IF closed[d] THEN pipe ELSE [pipe EXCEPT ![d] = r.pipe]
        /\ nsent' = [nsent EXCEPT ![d] = r.id]
        /\ fl' = [fl EXCEPT ![m] = [size |-> r.lasts, got |-> r.lasts]]
        /\ reuse' = (reuse \/ (hw[m] # NoCipher /\ ~Less(hw[m], snd[m])))
        /\ hw' = [hw EXCEPT ![m] = r.lastc]
        /\ clast' = [n |-> size, err |-> ""]
        /\ last' = Obs("CWrite", m, "")
        /\ UNCHANGED <<rcv, pend, closed, lastmsg, dl, rfail, used>>
  /\ UNCHANGED <<hvars, nadv, rbuf>>

CRead(d, want) ==
  LET r == Reader(d) IN
  IF rbuf[r].left > 0 THEN
     /\ hs[r] = "done"
     /\ clast' = [n |-> Min(want, rbuf[r].left), err |-> ""]
     /\ rbuf' = [rbuf EXCEPT ![r].left = @ - Min(want, @)]
     /\ UNCHANGED vars
  ELSE
     LET res == ReadRes(pipe[d], rcv[r]) IN
     /\ (Read(d) \/ ReadAfterFailure(d))
     /\ IF res.err # "" THEN clast' = [n |-> 0, err |-> res.err] /\ rbuf' = rbuf
        ELSE IF res.dsz = 0 /\ want > 0 THEN
           \* bytes.Buffer.Read on an empty buffer: (0, io.EOF) - the delivered empty message looks like the end of the stream
           /\ ConnEmptyEOFQuirk /\ PrintT(<<"QUIRK", "conn-read-empty-message-eof", l>>)
           /\ clast' = [n |-> 0, err |-> "short"] /\ rbuf' = rbuf
        ELSE /\ clast' = [n |-> Min(want, res.dsz), err |-> ""]
             /\ rbuf' = [rbuf EXCEPT ![r] = [left |-> res.dsz - Min(want, res.dsz), h |-> res.dh]]
AdvNames == {"Corrupt", "Truncate", "Drop", "Swap", "Replay", "ReplayOld", "Reflect"}

TNext ==
  \/ Reset
  \/ /\ \/ Is("GenActOne") /\ GenActOne(T.kind)
        \/ Is("RecvActOne") /\ RecvActOne
        \/ Is("GenActTwo") /\ GenActTwo
        \/ Is("RecvActTwo") /\ RecvActTwo
        \/ Is("GenActThree") /\ GenActThree
        \/ Is("RecvActThree") /\ RecvActThree
        \/ Is("AlterAct") /\ AlterAct(T.kind)
        \/ Is("OldActOne") /\ OldActOne
        \/ Is("FragmentAct") /\ FragmentAct(T.cuts)
        \/ Is("Write") /\ Write(T.m, T.size, T.v, T.h)
        \/ Is("Flush") /\ Flush(T.m, T.k)
        \/ Is("Read") /\ (Read(T.d) \/ ReadAfterFailure(T.d))
        \/ l <= Len(Trace) /\ T.a \in AdvNames /\ l' = l + 1
             /\ DoAdv(T.d, [a |-> T.a, o1 |-> T.o1, o2 |-> T.o2, o3 |-> T.o3])
     /\ Learn /\ UNCHANGED <<rbuf, clast>>
  \/ Is("CWrite") /\ CWrite(T.m, T.size, T.hs, T.v) /\ Learn
  \/ Is("CRead") /\ CRead(T.d, T.k) /\ Learn
  \/ (l = Len(Trace) + 1 /\ UNCHANGED tv)
TSpec == TInit /\ [][TNext]_tv

Live == l > 1 /\ Last.a # "Reset"
Done(m) == hs[m] = "done"

\* the error class of the call
IsConn == Last.a \in {"CRead", "CWrite"}
ConformErr == Live => Last.err = IF IsConn THEN clast.err ELSE last.err
\* Conn.Read / Conn.Write: bytes returned, bytes left in readBuf, and the drained message is the delivered one
ConformConn == (Live /\ IsConn) => /\ Last.nn = clast.n
                                   /\ Last.Arb = rbuf["A"].left /\ Last.Brb = rbuf["B"].left
                                   /\ (Last.a = "CRead" /\ Last.h # "" => Last.h = rbuf[Last.m].h)
\* ReadMessage returned a payload of the length the model says
ConformSize == (Live /\ Last.a = "Read" /\ last.err = "") => Last.size = last.dsz
\* the responder learned the initiator's static key (Conn.RemotePub of the accepted connection)
ConformRemoteKey == (Live /\ Last.a = "RecvActThree" /\ last.err = "") => Last.rpk = 1
\* Flush's return value: plaintext bytes written by this call
ConformFlush == (Live /\ Last.a = "Flush") => Last.nn = last.nn
\* len(nextHeaderSend), len(nextBodySend) of both machines
ConformPend == Live => /\ (Done("A") => Last.Ahl = pend["A"].hl /\ Last.Abl = pend["A"].bl)
                       /\ (Done("B") => Last.Bhl = pend["B"].hl /\ Last.Bbl = pend["B"].bl)
\* bytes in flight in both directions
ConformPipe == Live => Last.Lab = Total(pipe["ab"]) /\ Last.Lba = Total(pipe["ba"])
\* sendCipher.nonce / recvCipher.nonce of both machines
ConformNonce == Live => /\ (Done("A") => Last.Asn = snd["A"].n /\ Last.Arn = rcv["A"].n)
                        /\ (Done("B") => Last.Bsn = snd["B"].n /\ Last.Brn = rcv["B"].n)
\* the delivered bytes are the bytes of the message the model says was delivered
ConformPayload == (Live /\ Last.a = "Read" /\ last.err = "" /\ last.did > 0) => Last.h = last.dh
\* one real key per abstract (key, epoch) and one abstract (key, epoch) per real key:
\* send(p) = recv(q), the four directions' keys differ, rotation exactly every ROT uses,
\* and - with ConformNonce and NoNonceReuse - no (real key, nonce) pair encrypts twice
KeyBijection == \A x, y \in kmap : (x.id = y.id) <=> (x.fp = y.fp)
=============================================================================
