------------------------------ MODULE Transport ------------------------------
(***************************************************************************)
(* The BOLT-8 transport as lnd implements it (brontide/noise.go): two       *)
(* Machines ("A" = initiator, "B" = responder), the three-act handshake,    *)
(* and after it the length-prefixed AEAD message stream with key rotation,  *)
(* the one-message write buffer with resumable Flush, and ReadMessage.      *)
(*                                                                          *)
(* Cryptography is abstract.  A ciphertext is identified by the cipher      *)
(* state that produced it, [key, ep, n]: `key` the name of the HKDF output  *)
(* of split() ("k1" = first 32 bytes, "k2" = second), `ep` the number of    *)
(* rotateKey() calls applied to it, `n` the nonce.  AEAD is assumed         *)
(* perfect: Open succeeds iff it is given exactly the bytes of one whole    *)
(* Seal output, under the same (key, ep, n).  The byte stream between the   *)
(* machines is modelled EXACTLY at byte granularity, as a sequence of       *)
(* pieces [ciphertext, from, to) - so that partial flushes and arbitrary    *)
(* byte-range actions of the adversary have their real effect, and the same *)
(* module is model checked with tiny lengths (LEN = MAC = 1, ROT = 3) and   *)
(* validates traces of the real code (LEN = 2, MAC = 16, ROT = 1000).       *)
(*                                                                          *)
(* One action per call of the Machine API; the adversary owns the wire.     *)
(*                                                                          *)
(* Three further behaviour classes (follow-up):                             *)
(*  (a) DELIVERED DATA IS A VALUE, NOT A VIEW.  `held[d]` is what the       *)
(*      caller of ReadMessage / ReadBody still holds of the messages it was *)
(*      handed (Release = it drops them).  Nothing the Machine does later - *)
(*      further reads, writes, flushes, in either direction - changes a     *)
(*      held message: no action but the delivery itself and Release touches *)
(*      `held`.  Recheck is the caller looking at what it holds again; the  *)
(*      trace spec compares the hashes recomputed THEN with the hashes of   *)
(*      the messages as they were SENT (ConformHeld).                       *)
(*  (b) FULL-DUPLEX USE OF ONE MACHINE.  The read half and the write half   *)
(*      of a Machine run in different goroutines (peer.Brontide:            *)
(*      readHandler / writeHandler).  Each half is a sequential process     *)
(*      with a program counter (`wip`, `rip`) and one action per section of *)
(*      its calls: WStage / WEncHdr / WEncBody (WriteMessage), FlushHdr /   *)
(*      FlushBody (Flush, one section per Write on the wire), RHdrTake /    *)
(*      RHdrOpen / RHdrLen (ReadHeader: io.ReadFull, Decrypt, length),      *)
(*      RBodyTake / RBodyOpen (ReadBody).  The halves share NOTHING: the    *)
(*      write half owns snd, pend, wip, fl (and the staged length), the     *)
(*      read half owns rcv, rip, held, cbuf; they meet only on the wire.    *)
(*      This is the action property HalvesDisjoint, and it is why every     *)
(*      interleaving of the sections gives each call the result of the      *)
(*      atomic call.  The atomic actions Write / Flush / Read and the       *)
(*      per-call actions RHeader / RBody (ReadNextHeader / ReadNextBody)    *)
(*      are built from the same operators.  TLC takes every section         *)
(*      boundary (TransportMC, Fine = TRUE).  On the real code a half can   *)
(*      be parked where the code itself calls out: WriteMessage at          *)
(*      headerBufferPool.Get() - after the length is staged, before the two *)
(*      Encrypt calls: WStage, then WEnc = WEncHdr ; WEncBody in one step - *)
(*      Flush at its second Write on the wire (FlushHdr, FlushBody), and    *)
(*      between ReadHeader and ReadBody (RHeader, RBody).                   *)
(*  (c) brontide.Conn AS A BYTE STREAM (conn.go): CWrite = WriteMessage +   *)
(*      Flush per chunk of at most MaxSize bytes, CRead(want) = load the    *)
(*      next message into readBuf when it is empty, hand out min(want,      *)
(*      left) bytes.  `cbuf` is readBuf, `cst[d]` counts the bytes handed   *)
(*      out: the concatenation of the pieces is the sent stream             *)
(*      (ConnAccounting here; in the trace spec the count of every Read     *)
(*      and, message by message, the concatenated bytes: ConformConn,       *)
(*      ConformConnPayload).                                                *)
(***************************************************************************)
EXTENDS Integers, Sequences, FiniteSets, TLC

CONSTANTS ROT,          \* keyRotationInterval (1000)
          LEN,          \* lengthHeaderSize    (2)
          MAC,          \* macSize             (16)
          MaxSize,      \* largest payload     (65535)
          ActLen,       \* length of acts one and two (50)
          Act3Len,      \* length of act three (66)
          ReaderStops,  \* caller contract: a reader never calls ReadMessage again after an error
          TrackUsed,    \* keep the explicit set of (key, ep, n) used for encryption (MC only)
          ConnEmptyEOFQuirk  \* TRUE: follow the code where Conn.Read answers a delivered EMPTY message with io.EOF

HDR == LEN + MAC        \* encHeaderSize

Machines == {"A", "B"}
Dirs     == {"ab", "ba"}
Writer(d) == IF d = "ab" THEN "A" ELSE "B"
Reader(d) == IF d = "ab" THEN "B" ELSE "A"
DirOf(m)  == IF m = "A" THEN "ab" ELSE "ba"
Other(d)  == IF d = "ab" THEN "ba" ELSE "ab"
Min(a, b) == IF a < b THEN a ELSE b
Max(a, b) == IF a > b THEN a ELSE b

-----------------------------------------------------------------------------
(* cipherState                                                              *)
NoCipher == [key |-> "none", ep |-> 0, n |-> 0]
NewCipher(k) == [key |-> k, ep |-> 0, n |-> 0]
\* Encrypt/Decrypt: deferred `nonce++; if nonce == keyRotationInterval { rotateKey() }`
\* - on success AND on failure
Adv(c) == IF c.n + 1 = ROT THEN [key |-> c.key, ep |-> c.ep + 1, n |-> 0]
                           ELSE [key |-> c.key, ep |-> c.ep, n |-> c.n + 1]
Less(c1, c2) == c1.ep < c2.ep \/ (c1.ep = c2.ep /\ c1.n < c2.n)
Triple(c) == <<c.key, c.ep, c.n>>

-----------------------------------------------------------------------------
(* Ciphertexts and the byte pipe                                            *)
\* a ciphertext: who sealed it under which cipher state, what it is, its total
\* length, `v` = its plaintext read as a big-endian integer when the plaintext
\* is LEN bytes long (else -1), `h` = hash of its plaintext (traces only)
Ct(d, c, id, part, len, v, h) ==
  [dir |-> d, key |-> c.key, ep |-> c.ep, n |-> c.n, id |-> id, part |-> part,
   len |-> len, v |-> v, h |-> h]
NoCt == Ct("ab", NoCipher, 0, "none", 0, -1, "")

\* a piece of the stream: bytes [from, to) of a ciphertext; alt = contains an altered byte
Piece(ct, from, to) ==
  [dir |-> ct.dir, key |-> ct.key, ep |-> ct.ep, n |-> ct.n, id |-> ct.id, part |-> ct.part,
   len |-> ct.len, v |-> ct.v, h |-> ct.h, from |-> from, to |-> to, alt |-> FALSE]
PLen(s) == s.to - s.from
SameCt(s, t) == s.dir = t.dir /\ s.key = t.key /\ s.ep = t.ep /\ s.n = t.n /\ s.id = t.id /\ s.part = t.part

\* two adjacent pieces are one piece iff they are consecutive untouched bytes of one ciphertext
Joins(s, t) == SameCt(s, t) /\ ~s.alt /\ ~t.alt /\ s.to = t.from
AppendPiece(P, s) ==
  IF PLen(s) = 0 THEN P
  ELSE IF P # <<>> /\ Joins(P[Len(P)], s)
       THEN [P EXCEPT ![Len(P)] = [P[Len(P)] EXCEPT !.to = s.to]]
       ELSE Append(P, s)
RECURSIVE NormFrom(_, _)
NormFrom(acc, P) == IF P = <<>> THEN acc ELSE NormFrom(AppendPiece(acc, Head(P)), Tail(P))
Norm(P) == NormFrom(<<>>, P)

RECURSIVE Total(_)
Total(P) == IF P = <<>> THEN 0 ELSE PLen(Head(P)) + Total(Tail(P))

\* the first k bytes / all but the first k bytes (0 <= k <= Total(P))
RECURSIVE TakeN(_, _)
TakeN(P, k) ==
  IF k = 0 \/ P = <<>> THEN <<>>
  ELSE LET s == Head(P) IN
       IF PLen(s) <= k THEN <<s>> \o TakeN(Tail(P), k - PLen(s))
       ELSE <<[s EXCEPT !.to = s.from + k]>>
RECURSIVE DropN(_, _)
DropN(P, k) ==
  IF k = 0 \/ P = <<>> THEN P
  ELSE LET s == Head(P) IN
       IF PLen(s) <= k THEN DropN(Tail(P), k - PLen(s))
       ELSE <<[s EXCEPT !.from = s.from + k]>> \o Tail(P)
Sub(P, a, b) == TakeN(DropN(P, a), b - a)
\* byte offset at which piece i starts
RECURSIVE StartOf(_, _)
StartOf(P, i) == IF i <= 1 THEN 0 ELSE PLen(P[i - 1]) + StartOf(P, i - 1)
MarkAlt(P) == [i \in 1..Len(P) |-> [P[i] EXCEPT !.alt = TRUE]]

\* AEAD Open on `ps` (the bytes handed to Decrypt) under cipher state c
Whole(ps, c) == /\ Len(ps) = 1
                /\ ps[1].from = 0 /\ ps[1].to = ps[1].len /\ ~ps[1].alt
                /\ ps[1].key = c.key /\ ps[1].ep = c.ep /\ ps[1].n = c.n

-----------------------------------------------------------------------------
VARIABLES
  \* handshake
  hs,        \* machine -> "init" | "act1" | "act2" | "done" | "failed"
  target,    \* "unset" | "real" | "wrong": the static key the initiator dials
  tr,        \* machine -> "s" | "x": its handshake transcript (h, ck) is that of the genuine session / another one
  act,       \* the handshake act in flight, or NoAct
  \* transport
  snd, rcv,  \* machine -> cipher state   (Machine.sendCipher / recvCipher)
  pend,      \* machine -> [hc, bc, hl, bl]  (nextHeaderSend / nextBodySend: ciphertexts and bytes left)
  pipe,      \* direction -> sequence of pieces (the bytes in flight)
  closed,    \* direction -> the stream has ended (cut by the adversary / EOF seen by the reader)
  lastmsg,   \* direction -> the pieces consumed by the last successful read (what a replayer has on tape)
  \* history
  nsent,     \* direction -> number of messages accepted by WriteMessage (message ids are 1..nsent)
  dl,        \* direction -> [n, bad]: messages 1..n were delivered in order; `bad` = every other delivery
  rfail,     \* direction -> its reader has seen an error
  fl,        \* machine -> plaintext bytes reported by Flush for the buffered message, [size, got]
  used,      \* set of <<key, ep, n>> used for encryption (TrackUsed)
  hw,        \* machine -> the last cipher state it encrypted with (or NoCipher)
  reuse,     \* an encryption used a (key, ep, n) again / went backwards
  tampered,  \* the adversary touched a handshake act
  nadv,      \* adversary actions so far
  last,      \* observation of the last call
  \* (a) what the caller holds
  held,      \* direction -> sequence of [id, h]: delivered messages its reader's caller still holds
  \* (b) the two halves of a Machine as sequential processes
  wip,       \* machine -> the call in progress in its WRITE half: [pc, size, v, h, k]
  rip,       \* machine -> the call in progress in its READ half: [pc, ps, hp, plen, intact, prefail]
  \* (c) brontide.Conn
  cbuf,      \* machine -> Conn.readBuf: [left, sz, h] bytes left of the message (size sz, hash h) loaded last
  cst        \* direction -> [got, loaded, pure]: bytes handed out by Conn.Read, payload bytes of the messages it
             \* loaded, and whether Conn.Read alone consumed this direction so far

hvars == <<hs, target, tr, act, tampered>>
xvars == <<held, wip, rip, cbuf, cst>>
tvars == <<snd, rcv, pend, pipe, closed, lastmsg, nsent, dl, rfail, fl, used, hw, reuse, xvars>>
vars  == <<hvars, tvars, nadv, last>>
\* who owns what (b): the write half of m, the read half of m
WHalf(m) == <<snd[m], pend[m], wip[m], fl[m], hw[m]>>
RHalf(m) == <<rcv[m], rip[m], cbuf[m]>>

NoAct  == [k |-> 0, good |-> TRUE, sess |-> "s", alt |-> "none", cuts |-> <<>>]
ActSize(k) == IF k = 3 THEN Act3Len ELSE ActLen
NoPend == [hc |-> NoCt, bc |-> NoCt, hl |-> 0, bl |-> 0]
\* write half: "idle" | "staged" (WriteMessage passed its checks and staged the length in pktLenBuffer)
\*           | "hdr" (header sealed) | "flush" (Flush wrote the header; k bytes of the writer's budget left)
NoWip == [pc |-> "idle", size |-> 0, v |-> -1, h |-> "", k |-> 0]
\* read half: "idle" | "hin" (ReadHeader: the header bytes `ps` are off the wire) | "hopen" (header opened)
\*          | "hdr" (ReadHeader returned plen; ReadBody not called yet) | "bin" (ReadBody: the body bytes `ps` are off the wire)
NoRip == [pc |-> "idle", ps |-> <<>>, hp |-> <<>>, plen |-> 0, intact |-> FALSE, prefail |-> FALSE]
NoBuf == [left |-> 0, sz |-> 0, h |-> ""]
NoCst == [got |-> 0, loaded |-> 0, pure |-> TRUE]
WIdle(m) == wip[m].pc = "idle"
RIdle(m) == rip[m].pc = "idle"
Obs(op, who, err) == [op |-> op, who |-> who, err |-> err, nn |-> 0, did |-> 0, dh |-> "", dsz |-> 0,
                      intact |-> FALSE, prefail |-> FALSE]

Init ==
  /\ hs = [m \in Machines |-> "init"] /\ target = "unset" /\ tr = [m \in Machines |-> "s"]
  /\ act = NoAct /\ tampered = FALSE
  /\ snd = [m \in Machines |-> NoCipher] /\ rcv = [m \in Machines |-> NoCipher]
  /\ pend = [m \in Machines |-> NoPend]
  /\ pipe = [d \in Dirs |-> <<>>] /\ closed = [d \in Dirs |-> FALSE] /\ lastmsg = [d \in Dirs |-> <<>>]
  /\ nsent = [d \in Dirs |-> 0] /\ dl = [d \in Dirs |-> [n |-> 0, bad |-> <<>>]]
  /\ rfail = [d \in Dirs |-> FALSE]
  /\ fl = [m \in Machines |-> [size |-> 0, got |-> 0]]
  /\ used = {} /\ hw = [m \in Machines |-> NoCipher] /\ reuse = FALSE
  /\ nadv = 0
  /\ last = Obs("init", "", "")
  /\ held = [d \in Dirs |-> <<>>]
  /\ wip = [m \in Machines |-> NoWip] /\ rip = [m \in Machines |-> NoRip]
  /\ cbuf = [m \in Machines |-> NoBuf] /\ cst = [d \in Dirs |-> NoCst]

-----------------------------------------------------------------------------
(* The handshake.  An act carries: its number, whether its AEAD tag was     *)
(* made under the responder's real static key (`good`), the transcript it   *)
(* was made under (`sess`), and what the adversary did to it (`alt`).       *)

\* split(): the initiator sends with the first HKDF output and receives with the
\* second; the responder the other way round
Split(m) == /\ snd' = [snd EXCEPT ![m] = NewCipher(IF m = "A" THEN "k1" ELSE "k2")]
            /\ rcv' = [rcv EXCEPT ![m] = NewCipher(IF m = "A" THEN "k2" ELSE "k1")]

HsOnly == UNCHANGED <<pend, pipe, closed, lastmsg, nsent, dl, rfail, fl, used, hw, reuse, nadv, xvars>>

ErrOf(a) == IF a.alt = "ver" THEN "ver" ELSE IF a.alt = "badpt" THEN "point" ELSE "mac"

\* NewBrontideMachine(true, local, remotePub) + GenActOne
GenActOne(t) ==
  /\ hs["A"] = "init" /\ act = NoAct
  /\ target' = t
  /\ hs' = [hs EXCEPT !["A"] = "act1"]
  /\ act' = [k |-> 1, good |-> (t = "real"), sess |-> "s", alt |-> "none", cuts |-> <<>>]
  /\ last' = Obs("GenActOne", "A", "")
  /\ UNCHANGED <<tr, tampered, snd, rcv>> /\ HsOnly

RecvActOne ==
  /\ hs["B"] = "init" /\ act.k = 1
  /\ LET ok == act.alt = "none" /\ act.good IN
     /\ hs' = [hs EXCEPT !["B"] = IF ok THEN "act1" ELSE "failed"]
     /\ tr' = [tr EXCEPT !["B"] = IF ok THEN act.sess ELSE @]
     /\ last' = Obs("RecvActOne", "B", IF ok THEN "" ELSE ErrOf(act))
  /\ act' = NoAct
  /\ UNCHANGED <<target, tampered, snd, rcv>> /\ HsOnly

GenActTwo ==
  /\ hs["B"] = "act1" /\ act = NoAct
  /\ hs' = [hs EXCEPT !["B"] = "act2"]
  /\ act' = [k |-> 2, good |-> TRUE, sess |-> tr["B"], alt |-> "none", cuts |-> <<>>]
  /\ last' = Obs("GenActTwo", "B", "")
  /\ UNCHANGED <<target, tr, tampered, snd, rcv>> /\ HsOnly

RecvActTwo ==
  /\ hs["A"] = "act1" /\ act.k = 2
  /\ LET ok == act.alt = "none" /\ act.sess = tr["A"] IN
     /\ hs' = [hs EXCEPT !["A"] = IF ok THEN "act2" ELSE "failed"]
     /\ last' = Obs("RecvActTwo", "A", IF ok THEN "" ELSE ErrOf(act))
  /\ act' = NoAct
  /\ UNCHANGED <<target, tr, tampered, snd, rcv>> /\ HsOnly

GenActThree ==
  /\ hs["A"] = "act2" /\ act = NoAct
  /\ hs' = [hs EXCEPT !["A"] = "done"]
  /\ act' = [k |-> 3, good |-> TRUE, sess |-> tr["A"], alt |-> "none", cuts |-> <<>>]
  /\ Split("A")
  /\ last' = Obs("GenActThree", "A", "")
  /\ UNCHANGED <<target, tr, tampered>> /\ HsOnly

RecvActThree ==
  /\ hs["B"] = "act2" /\ act.k = 3
  /\ LET ok == act.alt = "none" /\ act.sess = tr["B"] IN
     /\ hs' = [hs EXCEPT !["B"] = IF ok THEN "done" ELSE "failed"]
     /\ IF ok THEN Split("B") ELSE UNCHANGED <<snd, rcv>>
     /\ last' = Obs("RecvActThree", "B", IF ok THEN "" ELSE ErrOf(act))
  /\ act' = NoAct
  /\ UNCHANGED <<target, tr, tampered>> /\ HsOnly

\* what the adversary can do to an act: change the version byte, replace the
\* ephemeral key by another point / by bytes that are no point, flip a bit of
\* the tag, (act 3) flip a bit of the encrypted static key
AltKinds(k) == IF k = 3 THEN {"ver", "ct", "tag"} ELSE {"ver", "eph", "badpt", "tag"}
AlterAct(kind) ==
  /\ act.k # 0 /\ act.alt = "none" /\ kind \in AltKinds(act.k)
  /\ act' = [act EXCEPT !.alt = kind]
  /\ tampered' = TRUE /\ nadv' = nadv + 1
  /\ last' = Obs("AlterAct", "", "")
  /\ UNCHANGED <<hs, target, tr, tvars>>

\* the network delivers the act in flight in Len(cuts) fragments of the given lengths.  The receiver
\* (Listener.doHandshake / Dial) reads a whole act whatever the fragmentation: RecvAct* below do not
\* look at `cuts` - whether a handshake completes must not depend on it
RECURSIVE SumSeq(_)
SumSeq(q) == IF q = <<>> THEN 0 ELSE Head(q) + SumSeq(Tail(q))
FragmentAct(cuts) ==
  /\ act.k # 0 /\ act.cuts = <<>> /\ Len(cuts) >= 2
  /\ \A i \in 1..Len(cuts) : cuts[i] >= 1
  /\ SumSeq(cuts) = ActSize(act.k)
  /\ act' = [act EXCEPT !.cuts = cuts]
  /\ last' = Obs("FragmentAct", "", "")
  /\ UNCHANGED <<hs, target, tr, tampered, tvars, nadv>>

\* replay of an act one recorded in ANOTHER session with the same responder:
\* the responder cannot tell (inherent in Noise_XK), the initiator then rejects act two
OldActOne ==
  /\ act.k = 1 /\ act.alt = "none" /\ act.sess = "s"
  /\ act' = [k |-> 1, good |-> TRUE, sess |-> "x", alt |-> "none", cuts |-> act.cuts]
  /\ tampered' = TRUE /\ nadv' = nadv + 1
  /\ last' = Obs("OldActOne", "", "")
  /\ UNCHANGED <<hs, target, tr, tvars>>

-----------------------------------------------------------------------------
(* WriteMessage / Flush / ReadMessage: as whole calls, and section by       *)
(* section for the two halves of a Machine running concurrently             *)

MsgOnly == UNCHANGED <<hvars, nadv>>

HdrCt(d, c, id, size) == Ct(d, c, id, "h", HDR, size, "")
BodyCt(d, c, id, size, v, h) == Ct(d, c, id, "b", size + MAC, IF size = LEN THEN v ELSE -1, h)
\* the two checks at the head of WriteMessage
WriteRefused(m, size) == IF size > MaxSize THEN "toolong"
                         ELSE IF pend[m].hl > 0 \/ pend[m].bl > 0 THEN "notflushed" ELSE ""

\* ---------------------------------------------------------------- write half
\* WriteMessage(p), len(p) = size; v = p as an integer when size = LEN; h = hash(p)
Write(m, size, v, h) ==
  /\ hs[m] = "done" /\ WIdle(m)
  /\ LET d == DirOf(m) IN
     IF WriteRefused(m, size) # "" THEN
        /\ last' = Obs("Write", m, WriteRefused(m, size))
        /\ UNCHANGED tvars
     ELSE
        LET c1 == snd[m]
            c2 == Adv(c1)
            id == nsent[d] + 1
            hc == HdrCt(d, c1, id, size)
            bc == BodyCt(d, c2, id, size, v, h)
        IN /\ snd' = [snd EXCEPT ![m] = Adv(c2)]
           /\ pend' = [pend EXCEPT ![m] = [hc |-> hc, bc |-> bc, hl |-> HDR, bl |-> size + MAC]]
           /\ nsent' = [nsent EXCEPT ![d] = id]
           /\ fl' = [fl EXCEPT ![m] = [size |-> size, got |-> 0]]
           /\ used' = IF TrackUsed THEN used \cup {Triple(c1), Triple(c2)} ELSE used
           /\ reuse' = (reuse \/ (TrackUsed /\ (Triple(c1) \in used \/ Triple(c2) \in used))
                              \/ (hw[m] # NoCipher /\ ~Less(hw[m], c1)) \/ ~Less(c1, c2))
           /\ hw' = [hw EXCEPT ![m] = c2]
           /\ last' = Obs("Write", m, "")
           /\ UNCHANGED <<rcv, pipe, closed, lastmsg, dl, rfail, xvars>>
  /\ MsgOnly

\* WriteMessage, section 1: the checks, and PutUint16(pktLenBuffer, len(p)) - the length is staged
WStage(m, size, v, h) ==
  /\ hs[m] = "done" /\ WIdle(m)
  /\ wip' = IF WriteRefused(m, size) # "" THEN wip
            ELSE [wip EXCEPT ![m] = [pc |-> "staged", size |-> size, v |-> v, h |-> h, k |-> 0]]
  /\ last' = Obs("WStage", m, WriteRefused(m, size))
  /\ UNCHANGED <<snd, rcv, pend, pipe, closed, lastmsg, nsent, dl, rfail, fl, used, hw, reuse, held, rip, cbuf, cst>>
  /\ MsgOnly
\* section 2: the header is sealed - over the length THIS half staged - into nextHeaderSend
WEncHdr(m) ==
  /\ wip[m].pc = "staged"
  /\ LET d  == DirOf(m)
         c1 == snd[m]
         id == nsent[d] + 1
     IN /\ snd' = [snd EXCEPT ![m] = Adv(c1)]
        /\ pend' = [pend EXCEPT ![m] = [hc |-> HdrCt(d, c1, id, wip[m].size), bc |-> NoCt, hl |-> HDR, bl |-> 0]]
        /\ nsent' = [nsent EXCEPT ![d] = id]
        /\ used' = IF TrackUsed THEN used \cup {Triple(c1)} ELSE used
        /\ reuse' = (reuse \/ (TrackUsed /\ Triple(c1) \in used) \/ (hw[m] # NoCipher /\ ~Less(hw[m], c1)))
        /\ hw' = [hw EXCEPT ![m] = c1]
  /\ wip' = [wip EXCEPT ![m].pc = "hdr"]
  /\ last' = Obs("WEncHdr", m, "")
  /\ UNCHANGED <<rcv, pipe, closed, lastmsg, dl, rfail, fl, held, rip, cbuf, cst>>
  /\ MsgOnly
\* section 3: the body is sealed into nextBodySend; WriteMessage returns
WEncBody(m) ==
  /\ wip[m].pc = "hdr"
  /\ LET d  == DirOf(m)
         c2 == snd[m]
         w  == wip[m]
     IN /\ snd' = [snd EXCEPT ![m] = Adv(c2)]
        /\ pend' = [pend EXCEPT ![m].bc = BodyCt(d, c2, nsent[d], w.size, w.v, w.h), ![m].bl = w.size + MAC]
        /\ fl' = [fl EXCEPT ![m] = [size |-> w.size, got |-> 0]]
        /\ used' = IF TrackUsed THEN used \cup {Triple(c2)} ELSE used
        /\ reuse' = (reuse \/ (TrackUsed /\ Triple(c2) \in used) \/ ~Less(hw[m], c2))
        /\ hw' = [hw EXCEPT ![m] = c2]
  /\ wip' = [wip EXCEPT ![m] = NoWip]
  /\ last' = Obs("WEncBody", m, "")
  /\ UNCHANGED <<rcv, pipe, closed, lastmsg, nsent, dl, rfail, held, rip, cbuf, cst>>
  /\ MsgOnly

\* sections 2 and 3 in one step (what the real WriteMessage does after it has fetched its pooled buffers:
\* both Encrypt calls with no scheduling point of the harness between them)
WEnc(m) ==
  /\ wip[m].pc = "staged"
  /\ LET d  == DirOf(m)
         w  == wip[m]
         c1 == snd[m]
         c2 == Adv(c1)
         id == nsent[d] + 1
     IN /\ snd' = [snd EXCEPT ![m] = Adv(c2)]
        /\ pend' = [pend EXCEPT ![m] = [hc |-> HdrCt(d, c1, id, w.size), bc |-> BodyCt(d, c2, id, w.size, w.v, w.h),
                                        hl |-> HDR, bl |-> w.size + MAC]]
        /\ nsent' = [nsent EXCEPT ![d] = id]
        /\ fl' = [fl EXCEPT ![m] = [size |-> w.size, got |-> 0]]
        /\ used' = IF TrackUsed THEN used \cup {Triple(c1), Triple(c2)} ELSE used
        /\ reuse' = (reuse \/ (TrackUsed /\ (Triple(c1) \in used \/ Triple(c2) \in used))
                           \/ (hw[m] # NoCipher /\ ~Less(hw[m], c1)) \/ ~Less(c1, c2))
        /\ hw' = [hw EXCEPT ![m] = c2]
  /\ wip' = [wip EXCEPT ![m] = NoWip]
  /\ last' = Obs("WEnc", m, "")
  /\ UNCHANGED <<rcv, pipe, closed, lastmsg, dl, rfail, held, rip, cbuf, cst>>
  /\ MsgOnly

\* Flush(w) where w accepts k more bytes and then times out
Flush(m, k) ==
  /\ hs[m] = "done" /\ WIdle(m) /\ k >= 0
  /\ LET d  == DirOf(m)
         hl == pend[m].hl
         bl == pend[m].bl
         wh == Min(k, hl)
         wb == IF wh < hl THEN 0 ELSE Min(k - wh, bl)   \* header error: body not attempted
         hc == pend[m].hc
         bc == pend[m].bc
         nn == Max(0, bl - MAC) - Max(0, bl - wb - MAC)  \* plaintext bytes of this call
         done == wh = hl /\ wb = bl
     IN /\ pipe' = IF closed[d] THEN pipe     \* bytes written after the stream ended go nowhere
                 ELSE [pipe EXCEPT ![d] =
                      AppendPiece(AppendPiece(@, Piece(hc, HDR - hl, HDR - hl + wh)),
                                  Piece(bc, bc.len - bl, bc.len - bl + wb))]
        /\ pend' = [pend EXCEPT ![m] = IF done THEN NoPend ELSE [@ EXCEPT !.hl = hl - wh, !.bl = bl - wb]]
        /\ fl' = [fl EXCEPT ![m].got = @ + nn]
        /\ last' = [Obs("Flush", m, IF k < hl + bl THEN "timeout" ELSE "") EXCEPT !.nn = nn]
  /\ UNCHANGED <<snd, rcv, closed, lastmsg, nsent, dl, rfail, used, hw, reuse, xvars>>
  /\ MsgOnly

\* Flush with header bytes pending, section 1: w.Write(nextHeaderSend), the slice is advanced; on an
\* error Flush returns, else it goes on to the body with what is left of the writer's budget
FlushHdr(m, k) ==
  /\ hs[m] = "done" /\ WIdle(m) /\ k >= 0 /\ pend[m].hl > 0
  /\ LET d  == DirOf(m)
         hl == pend[m].hl
         wh == Min(k, hl)
     IN /\ pipe' = IF closed[d] THEN pipe
                   ELSE [pipe EXCEPT ![d] = AppendPiece(@, Piece(pend[m].hc, HDR - hl, HDR - hl + wh))]
        /\ pend' = [pend EXCEPT ![m].hl = hl - wh]
        /\ wip' = IF wh < hl THEN wip ELSE [wip EXCEPT ![m] = [NoWip EXCEPT !.pc = "flush", !.k = k - wh]]
        /\ last' = Obs("FlushHdr", m, IF wh < hl THEN "timeout" ELSE "")
  /\ UNCHANGED <<snd, rcv, closed, lastmsg, nsent, dl, rfail, fl, used, hw, reuse, held, rip, cbuf, cst>>
  /\ MsgOnly
\* section 2: w.Write(nextBodySend), the slice is advanced, the buffers are released when all is out
FlushBody(m) ==
  /\ wip[m].pc = "flush"
  /\ LET d  == DirOf(m)
         bl == pend[m].bl
         wb == Min(wip[m].k, bl)
         bc == pend[m].bc
         nn == Max(0, bl - MAC) - Max(0, bl - wb - MAC)
     IN /\ pipe' = IF closed[d] THEN pipe
                   ELSE [pipe EXCEPT ![d] = AppendPiece(@, Piece(bc, bc.len - bl, bc.len - bl + wb))]
        /\ pend' = [pend EXCEPT ![m] = IF wb = bl THEN NoPend ELSE [@ EXCEPT !.bl = bl - wb]]
        /\ fl' = [fl EXCEPT ![m].got = @ + nn]
        /\ last' = [Obs("FlushBody", m, IF wb < bl THEN "timeout" ELSE "") EXCEPT !.nn = nn]
  /\ wip' = [wip EXCEPT ![m] = NoWip]
  /\ UNCHANGED <<snd, rcv, closed, lastmsg, nsent, dl, rfail, used, hw, reuse, held, rip, cbuf, cst>>
  /\ MsgOnly

\* ----------------------------------------------------------------- read half
\* the head of the stream is exactly the untouched ciphertext of the next undelivered message
IsCt(s, d, id, part) == s.dir = d /\ s.id = id /\ s.part = part /\ s.from = 0 /\ s.to = s.len /\ ~s.alt
HeadIntact(d) == /\ Len(pipe[d]) >= 2
                 /\ IsCt(pipe[d][1], d, dl[d].n + 1, "h")
                 /\ IsCt(pipe[d][2], d, dl[d].n + 1, "b")
HdrIntact(d)  == pipe[d] # <<>> /\ IsCt(pipe[d][1], d, dl[d].n + 1, "h")
BodyIntact(d) == pipe[d] # <<>> /\ IsCt(pipe[d][1], d, dl[d].n + 1, "b")

RFail(e, P2, c) == [err |-> e, pipe |-> P2, rc |-> c, did |-> 0, dir |-> "", dh |-> "", dsz |-> 0, msg |-> <<>>,
                    hp |-> <<>>, plen |-> 0]
\* AEAD does not bind a ciphertext to its role: what is delivered is a sent message only if a
\* header was opened as header and its body as body
Opened(hp, bp, P2, c) ==
  [err |-> "", pipe |-> P2, rc |-> c,
   did |-> IF hp[1].part = "h" /\ bp[1].part = "b" /\ hp[1].id = bp[1].id /\ hp[1].dir = bp[1].dir
           THEN bp[1].id ELSE -1,
   dir |-> bp[1].dir, dh |-> bp[1].h, dsz |-> bp[1].len - MAC, msg |-> hp \o bp, hp |-> hp, plen |-> bp[1].len]
\* ReadHeader on the bytes P with receive cipher rc.
\* io.ReadFull on too few bytes consumes them and fails without touching the cipher.
HdrRes(P, rc) ==
  IF Total(P) < HDR THEN RFail("short", <<>>, rc)
  ELSE LET hp == TakeN(P, HDR) IN
       IF ~Whole(hp, rc) THEN RFail("mac", DropN(P, HDR), Adv(rc))
       ELSE [RFail("", DropN(P, HDR), Adv(rc)) EXCEPT !.hp = hp, !.plen = hp[1].v + MAC]
\* ReadBody(buf), len(buf) = plen, after a header that opened as hp
BodyRes(P, rc, hp, plen) ==
  IF Total(P) < plen THEN RFail("short", <<>>, rc)
  ELSE LET bp == TakeN(P, plen) IN
       IF ~Whole(bp, rc) THEN RFail("mac", DropN(P, plen), Adv(rc))
       ELSE Opened(hp, bp, DropN(P, plen), Adv(rc))
\* ReadMessage = ReadHeader ; ReadBody(make([]byte, pktLen))
ReadRes(P, rc) == LET h == HdrRes(P, rc) IN
                  IF h.err # "" THEN h ELSE BodyRes(h.pipe, h.rc, h.hp, h.plen)

\* NOT forbidden by the Machine: reading on after an error (the peer layer never does)
CanRead(d) == ~rfail[d] \/ ~ReaderStops

\* what a read call that ended with `res` does to the stream and to the receive cipher ...
Consume(d, res) ==
  /\ pipe' = [pipe EXCEPT ![d] = res.pipe]
  /\ rcv' = [rcv EXCEPT ![Reader(d)] = res.rc]
  /\ rfail' = [rfail EXCEPT ![d] = @ \/ res.err # ""]
  /\ closed' = [closed EXCEPT ![d] = @ \/ res.err = "short"]   \* io.ReadFull hit EOF
\* ... and to the record of what was delivered; `keep`: the plaintext slice goes to a caller who holds it
Deliver(d, res, keep) ==
  /\ lastmsg' = [lastmsg EXCEPT ![d] = IF res.err = "" THEN res.msg ELSE @]
  /\ dl' = IF res.err # "" THEN dl
           ELSE IF dl[d].bad = <<>> /\ res.did = dl[d].n + 1 /\ res.dir = d
                THEN [dl EXCEPT ![d].n = @ + 1]
                ELSE [dl EXCEPT ![d].bad = Append(@, res.did)]
  /\ held' = IF res.err = "" /\ keep THEN [held EXCEPT ![d] = Append(@, [id |-> res.did, h |-> res.dh])] ELSE held
ReadObs(op, r, res, intact, prefail) ==
  [Obs(op, r, res.err) EXCEPT !.did = res.did, !.dh = res.dh, !.dsz = res.dsz, !.nn = res.plen,
                              !.intact = intact, !.prefail = prefail]

\* ReadMessage as one call
ReadCommon(d) ==
  LET r   == Reader(d)
      res == ReadRes(pipe[d], rcv[r])
  IN /\ hs[r] = "done" /\ RIdle(r)
     /\ Consume(d, res) /\ Deliver(d, res, TRUE)
     /\ cst' = IF res.err = "" THEN [cst EXCEPT ![d].pure = FALSE] ELSE cst
     /\ last' = [ReadObs("Read", r, res, HeadIntact(d), rfail[d]) EXCEPT !.nn = 0]
     /\ UNCHANGED <<snd, pend, nsent, fl, used, hw, reuse, wip, rip, cbuf>>
     /\ MsgOnly

Read(d) == ~rfail[d] /\ ReadCommon(d)
ReadAfterFailure(d) == ~ReaderStops /\ rfail[d] /\ ReadCommon(d)

\* ReadHeader as one call (Conn.ReadNextHeader): returns plen = length + MAC
RHeader(d) ==
  LET r   == Reader(d)
      res == HdrRes(pipe[d], rcv[r])
  IN /\ hs[r] = "done" /\ RIdle(r) /\ CanRead(d)
     /\ Consume(d, res)
     /\ rip' = IF res.err # "" THEN rip
               ELSE [rip EXCEPT ![r] = [NoRip EXCEPT !.pc = "hdr", !.hp = res.hp, !.plen = res.plen,
                                                    !.intact = HdrIntact(d), !.prefail = rfail[d]]]
     /\ last' = ReadObs("RHeader", r, res, HdrIntact(d), rfail[d])
     /\ UNCHANGED <<snd, pend, lastmsg, nsent, dl, fl, used, hw, reuse, held, wip, cbuf, cst>>
     /\ MsgOnly
\* ReadBody(buf) as one call (Conn.ReadNextBody), len(buf) = the plen ReadHeader returned (caller contract)
RBody(d) ==
  LET r   == Reader(d)
      q   == rip[r]
      res == BodyRes(pipe[d], rcv[r], q.hp, q.plen)
  IN /\ q.pc = "hdr"
     /\ Consume(d, res) /\ Deliver(d, res, TRUE)
     /\ cst' = IF res.err = "" THEN [cst EXCEPT ![d].pure = FALSE] ELSE cst
     /\ rip' = [rip EXCEPT ![r] = NoRip]
     /\ last' = [ReadObs("RBody", r, res, q.intact /\ BodyIntact(d), q.prefail) EXCEPT !.nn = 0]
     /\ UNCHANGED <<snd, pend, nsent, fl, used, hw, reuse, wip, cbuf>>
     /\ MsgOnly

\* ReadHeader, section 1: io.ReadFull(r, nextCipherHeader[:])
RHdrTake(d) ==
  LET r == Reader(d)
      P == pipe[d]
      short == Total(P) < HDR
  IN /\ hs[r] = "done" /\ RIdle(r) /\ CanRead(d)
     /\ pipe' = [pipe EXCEPT ![d] = IF short THEN <<>> ELSE DropN(P, HDR)]
     /\ closed' = [closed EXCEPT ![d] = @ \/ short]
     /\ rfail' = [rfail EXCEPT ![d] = @ \/ short]
     /\ rip' = IF short THEN rip
               ELSE [rip EXCEPT ![r] = [NoRip EXCEPT !.pc = "hin", !.ps = TakeN(P, HDR),
                                                    !.intact = HdrIntact(d), !.prefail = rfail[d]]]
     /\ last' = [Obs("RHdrTake", r, IF short THEN "short" ELSE "") EXCEPT !.prefail = rfail[d]]
     /\ UNCHANGED <<snd, rcv, pend, lastmsg, nsent, dl, fl, used, hw, reuse, held, wip, cbuf, cst>>
     /\ MsgOnly
\* section 2: recvCipher.Decrypt(nextCipherHeader) - the nonce advances whether the tag verifies or not
RHdrOpen(d) ==
  LET r  == Reader(d)
      q  == rip[r]
      ok == Whole(q.ps, rcv[r])
  IN /\ q.pc = "hin"
     /\ rcv' = [rcv EXCEPT ![r] = Adv(@)]
     /\ rfail' = [rfail EXCEPT ![d] = @ \/ ~ok]
     /\ rip' = [rip EXCEPT ![r] = IF ok THEN [q EXCEPT !.pc = "hopen", !.hp = q.ps, !.ps = <<>>,
                                                       !.plen = q.ps[1].v + MAC]
                                  ELSE NoRip]
     /\ last' = [Obs("RHdrOpen", r, IF ok THEN "" ELSE "mac") EXCEPT !.intact = q.intact, !.prefail = q.prefail]
     /\ UNCHANGED <<snd, pend, pipe, closed, lastmsg, nsent, dl, fl, used, hw, reuse, held, wip, cbuf, cst>>
     /\ MsgOnly
\* section 3: the length is taken from the opened header; ReadHeader returns it (+ MAC)
RHdrLen(d) ==
  LET r == Reader(d)
      q == rip[r]
  IN /\ q.pc = "hopen"
     /\ rip' = [rip EXCEPT ![r].pc = "hdr"]
     /\ last' = [Obs("RHdrLen", r, "") EXCEPT !.nn = q.plen, !.prefail = q.prefail]
     /\ UNCHANGED <<snd, rcv, pend, pipe, closed, lastmsg, nsent, dl, rfail, fl, used, hw, reuse, held, wip, cbuf, cst>>
     /\ MsgOnly
\* ReadBody, section 1: io.ReadFull(r, buf)
RBodyTake(d) ==
  LET r == Reader(d)
      q == rip[r]
      P == pipe[d]
      short == Total(P) < q.plen
  IN /\ q.pc = "hdr"
     /\ pipe' = [pipe EXCEPT ![d] = IF short THEN <<>> ELSE DropN(P, q.plen)]
     /\ closed' = [closed EXCEPT ![d] = @ \/ short]
     /\ rfail' = [rfail EXCEPT ![d] = @ \/ short]
     /\ rip' = [rip EXCEPT ![r] = IF short THEN NoRip
                                  ELSE [q EXCEPT !.pc = "bin", !.ps = TakeN(P, q.plen),
                                                 !.intact = q.intact /\ BodyIntact(d)]]
     /\ last' = [Obs("RBodyTake", r, IF short THEN "short" ELSE "") EXCEPT !.prefail = q.prefail]
     /\ UNCHANGED <<snd, rcv, pend, lastmsg, nsent, dl, fl, used, hw, reuse, held, wip, cbuf, cst>>
     /\ MsgOnly
\* section 2: recvCipher.Decrypt(buf) in place; ReadBody returns the plaintext slice
RBodyOpen(d) ==
  LET r   == Reader(d)
      q   == rip[r]
      res == IF Whole(q.ps, rcv[r]) THEN Opened(q.hp, q.ps, pipe[d], Adv(rcv[r]))
             ELSE RFail("mac", pipe[d], Adv(rcv[r]))
  IN /\ q.pc = "bin"
     /\ Consume(d, res) /\ Deliver(d, res, TRUE)
     /\ cst' = IF res.err = "" THEN [cst EXCEPT ![d].pure = FALSE] ELSE cst
     /\ rip' = [rip EXCEPT ![r] = NoRip]
     /\ last' = [ReadObs("RBodyOpen", r, res, q.intact, q.prefail) EXCEPT !.nn = 0]
     /\ UNCHANGED <<snd, pend, nsent, fl, used, hw, reuse, wip, cbuf>>
     /\ MsgOnly

\* ------------------------------------------------------ what the caller holds
\* the caller drops the messages it was handed
Release(d) ==
  /\ hs[Reader(d)] = "done" /\ held[d] # <<>>
  /\ held' = [held EXCEPT ![d] = <<>>]
  /\ last' = Obs("Release", Reader(d), "")
  /\ UNCHANGED <<hvars, snd, rcv, pend, pipe, closed, lastmsg, nsent, dl, rfail, fl, used, hw, reuse, wip, rip, cbuf, cst, nadv>>
\* the caller looks again at the messages it holds: nothing changes (the observation is judged by the trace spec)
Recheck(d) ==
  /\ hs[Reader(d)] = "done"
  /\ last' = [Obs("Recheck", Reader(d), "") EXCEPT !.nn = Len(held[d])]
  /\ UNCHANGED <<hvars, tvars, nadv>>

\* ------------------------------------------------------------- brontide.Conn
\* Conn.Write(b), len(b) = size, on a net.Conn that accepts everything: WriteMessage + Flush per chunk of
\* at most MaxSize bytes.  The chunks appended to the stream P, starting in cipher state c with message id
\* (hseq: hashes of the chunks, v: the value of a LEN-byte chunk - traces only)
HashAt(hseq, i) == IF i <= Len(hseq) THEN hseq[i] ELSE ""
RECURSIVE Chunks(_, _, _, _, _, _, _, _)
Chunks(d, c, P, id, rest, hseq, i, v) ==
  LET s  == Min(rest, MaxSize)
      c2 == Adv(c)
      P2 == AppendPiece(AppendPiece(P, Piece(HdrCt(d, c, id, s), 0, HDR)),
                        Piece(BodyCt(d, c2, id, s, v, HashAt(hseq, i)), 0, s + MAC))
  IN IF rest - s = 0 THEN [c |-> Adv(c2), lastc |-> c2, pipe |-> P2, id |-> id, lasts |-> s]
     ELSE Chunks(d, Adv(c2), P2, id + 1, rest - s, hseq, i + 1, v)

CWrite(m, size, hseq, v) ==
  LET d == DirOf(m) IN
  /\ hs[m] = "done" /\ WIdle(m)
  /\ IF pend[m] # NoPend THEN
        /\ last' = Obs("CWrite", m, "notflushed")
        /\ UNCHANGED tvars
     ELSE
        LET r == Chunks(d, snd[m], pipe[d], nsent[d] + 1, size, hseq, 1, v) IN
        /\ snd' = [snd EXCEPT ![m] = r.c]
        /\ pipe' = IF closed[d] THEN pipe ELSE [pipe EXCEPT ![d] = r.pipe]
        /\ nsent' = [nsent EXCEPT ![d] = r.id]
        /\ fl' = [fl EXCEPT ![m] = [size |-> r.lasts, got |-> r.lasts]]
        /\ reuse' = (reuse \/ (hw[m] # NoCipher /\ ~Less(hw[m], snd[m])))
        /\ hw' = [hw EXCEPT ![m] = r.lastc]
        /\ last' = [Obs("CWrite", m, "") EXCEPT !.nn = size]
        /\ UNCHANGED <<rcv, pend, closed, lastmsg, dl, rfail, used, xvars>>
  /\ MsgOnly

\* Conn.Read(b), len(b) = want: bytes left in readBuf are handed out; when it is empty the next message is
\* loaded first (ReadMessage, copied into readBuf - the caller never sees that slice)
CRead(d, want) ==
  LET r == Reader(d) IN
  /\ hs[r] = "done" /\ RIdle(r) /\ want >= 0
  /\ IF cbuf[r].left > 0 THEN
        LET n == Min(want, cbuf[r].left) IN
        /\ cbuf' = [cbuf EXCEPT ![r].left = @ - n]
        /\ cst' = [cst EXCEPT ![d].got = @ + n]
        /\ last' = [Obs("CRead", r, "") EXCEPT !.nn = n]
        /\ UNCHANGED <<pipe, rcv, rfail, closed, lastmsg, dl, held>>
     ELSE
        LET res == ReadRes(pipe[d], rcv[r])
            \* bytes.Buffer.Read on an empty buffer: (0, io.EOF) - the delivered empty message looks like the end of the stream
            eof == ConnEmptyEOFQuirk /\ res.err = "" /\ res.dsz = 0 /\ want > 0
            n   == IF res.err = "" THEN Min(want, res.dsz) ELSE 0
        IN /\ CanRead(d)
           /\ Consume(d, res) /\ Deliver(d, res, FALSE)
           /\ cbuf' = IF res.err = "" THEN [cbuf EXCEPT ![r] = [left |-> res.dsz - n, sz |-> res.dsz, h |-> res.dh]] ELSE cbuf
           /\ cst' = IF res.err = "" THEN [cst EXCEPT ![d].loaded = @ + res.dsz, ![d].got = @ + n] ELSE cst
           /\ last' = [ReadObs("CLoad", r, res, HeadIntact(d), rfail[d]) EXCEPT !.nn = n, !.err = IF eof THEN "short" ELSE res.err]
  /\ UNCHANGED <<snd, pend, nsent, fl, used, hw, reuse, wip, rip>>
  /\ MsgOnly
\* the empty-message case of Conn.Read (announced by the trace spec)
CReadEmptyEOF(d, want) ==
  LET r == Reader(d)
      res == ReadRes(pipe[d], rcv[r]) IN
  ConnEmptyEOFQuirk /\ cbuf[r].left = 0 /\ res.err = "" /\ res.dsz = 0 /\ want > 0

-----------------------------------------------------------------------------
(* The adversary on the byte stream.  All actions are byte-range operations; *)
(* the model checker and the generator apply them at piece boundaries.       *)
AdvOnly(d, P2) == /\ pipe' = [pipe EXCEPT ![d] = Norm(P2)]
                  /\ nadv' = nadv + 1
                  /\ UNCHANGED <<hvars, snd, rcv, pend, lastmsg, nsent, dl, rfail, fl, used, hw, reuse, xvars>>

\* change the byte at offset off
Corrupt(d, off) ==
  LET P == pipe[d] IN
  /\ 0 <= off /\ off < Total(P)
  /\ AdvOnly(d, TakeN(P, off) \o MarkAlt(Sub(P, off, off + 1)) \o DropN(P, off + 1))
  /\ last' = Obs("Corrupt", d, "") /\ UNCHANGED closed
\* cut the last k bytes and end the stream
Truncate(d, k) ==
  LET P == pipe[d] IN
  /\ 0 <= k /\ k <= Total(P) /\ ~closed[d]
  /\ AdvOnly(d, TakeN(P, Total(P) - k))
  /\ closed' = [closed EXCEPT ![d] = TRUE]
  /\ last' = Obs("Truncate", d, "")
\* remove the bytes [off, off+n)
Drop(d, off, n) ==
  LET P == pipe[d] IN
  /\ 0 <= off /\ n >= 1 /\ off + n <= Total(P)
  /\ AdvOnly(d, TakeN(P, off) \o DropN(P, off + n))
  /\ last' = Obs("Drop", d, "") /\ UNCHANGED closed
\* exchange the adjacent ranges [off, off+n1) and [off+n1, off+n1+n2)
Swap(d, off, n1, n2) ==
  LET P == pipe[d] IN
  /\ 0 <= off /\ n1 >= 1 /\ n2 >= 1 /\ off + n1 + n2 <= Total(P)
  /\ AdvOnly(d, TakeN(P, off) \o Sub(P, off + n1, off + n1 + n2) \o Sub(P, off, off + n1)
                \o DropN(P, off + n1 + n2))
  /\ last' = Obs("Swap", d, "") /\ UNCHANGED closed
\* insert a copy of [off, off+n) at offset at
Replay(d, off, n, at) ==
  LET P == pipe[d] IN
  /\ 0 <= off /\ n >= 1 /\ off + n <= Total(P) /\ 0 <= at /\ at <= Total(P)
  /\ AdvOnly(d, TakeN(P, at) \o Sub(P, off, off + n) \o DropN(P, at))
  /\ last' = Obs("Replay", d, "") /\ UNCHANGED closed
\* insert the bytes of the last delivered message again at offset at
ReplayOld(d, at) ==
  LET P == pipe[d] IN
  /\ lastmsg[d] # <<>> /\ 0 <= at /\ at <= Total(P)
  /\ AdvOnly(d, TakeN(P, at) \o lastmsg[d] \o DropN(P, at))
  /\ last' = Obs("ReplayOld", d, "") /\ UNCHANGED closed
\* insert a copy of [off, off+n) of direction d into the OTHER direction at offset at
Reflect(d, off, n, at) ==
  LET P == pipe[d]
      Q == pipe[Other(d)] IN
  /\ 0 <= off /\ n >= 1 /\ off + n <= Total(P) /\ 0 <= at /\ at <= Total(Q)
  /\ AdvOnly(Other(d), TakeN(Q, at) \o Sub(P, off, off + n) \o DropN(Q, at))
  /\ last' = Obs("Reflect", d, "") /\ UNCHANGED closed

\* a move of the adversary as a record, and its execution
Mv(a, o1, o2, o3) == [a |-> a, o1 |-> o1, o2 |-> o2, o3 |-> o3]
DoAdv(d, mv) ==
  CASE mv.a = "Corrupt"   -> Corrupt(d, mv.o1)
    [] mv.a = "Truncate"  -> Truncate(d, mv.o1)
    [] mv.a = "Drop"      -> Drop(d, mv.o1, mv.o2)
    [] mv.a = "Swap"      -> Swap(d, mv.o1, mv.o2, mv.o3)
    [] mv.a = "Replay"    -> Replay(d, mv.o1, mv.o2, mv.o3)
    [] mv.a = "ReplayOld" -> ReplayOld(d, mv.o1)
    [] mv.a = "Reflect"   -> Reflect(d, mv.o1, mv.o2, mv.o3)
    [] OTHER -> FALSE

\* the adversary's moves at piece boundaries (used by MC and by the generator)
AdvMoves(d) ==
  LET P == pipe[d]
      L == Len(P)
      T == Total(P)
      S(i) == StartOf(P, i)
      N(i) == PLen(P[i]) IN
  {Mv("Corrupt", S(i), 0, 0) : i \in 1..L} \cup {Mv("Corrupt", S(i) + N(i) - 1, 0, 0) : i \in 1..L}
  \cup (IF closed[d] THEN {} ELSE {Mv("Truncate", T - S(i), 0, 0) : i \in 1..L} \cup {Mv("Truncate", 0, 0, 0)}
                                   \cup (IF T >= 1 THEN {Mv("Truncate", 1, 0, 0)} ELSE {}))
  \cup {Mv("Drop", S(i), N(i), 0) : i \in 1..L}
  \cup {Mv("Swap", S(i), N(i), N(i + 1)) : i \in 1..(L - 1)}
  \cup {Mv("Swap", S(i), N(i) + N(i + 1), N(i + 2) + N(i + 3)) : i \in 1..(L - 3)}
  \cup {Mv("Replay", S(i), N(i), at) : i \in 1..L, at \in {0, T}}
  \cup {Mv("Replay", S(i), N(i), S(i) + N(i)) : i \in 1..L}
  \cup {Mv("Replay", S(i), N(i) + N(i + 1), T) : i \in 1..(L - 1)}
  \cup (IF lastmsg[d] = <<>> THEN {} ELSE {Mv("ReplayOld", 0, 0, 0), Mv("ReplayOld", T, 0, 0)})
  \cup {Mv("Reflect", S(i), N(i), at) : i \in 1..L, at \in {0, Total(pipe[Other(d)])}}
  \cup {Mv("Reflect", S(i), N(i) + N(i + 1), 0) : i \in 1..(L - 1)}
AdvAtPieces(d) == \E mv \in AdvMoves(d) : DoAdv(d, mv)

-----------------------------------------------------------------------------
(* Invariants, from the property statement                                  *)
BothDone == hs["A"] = "done" /\ hs["B"] = "done"

\* the handshake completes exactly when the initiator targets the responder's real key
\* (and nobody altered an act): soundness ...
HsSound == BothDone => (target = "real" /\ ~tampered)
\* ... and completeness: an untampered handshake with the right key never fails, and it ends
HsComplete == (target \in {"unset", "real"} /\ ~tampered) =>
                 /\ \A m \in Machines : hs[m] # "failed"
                 /\ (act = NoAct /\ hs["A"] = "done" => hs["B"] = "done")
HsWrongKey == (target = "wrong" /\ ~tampered) => hs["B"] \in {"init", "failed"}
\* B completes only after A, and only in A's session
HsOrder == hs["B"] = "done" => (hs["A"] = "done" /\ tr["B"] = tr["A"])

\* after the handshake each side's send key is the other's receive key (and the two differ)
KeysAgree == BothDone => /\ snd["A"].key = rcv["B"].key /\ snd["B"].key = rcv["A"].key
                         /\ snd["A"].key # snd["B"].key
                         /\ snd["A"].key # "none" /\ snd["B"].key # "none"
\* and they stay equal: a reader that has seen no error and has consumed everything its peer
\* encrypted is in the very cipher state its peer will encrypt with next
InSync == \A d \in Dirs :
            (BothDone /\ ~rfail[d] /\ dl[d].n = nsent[d] /\ dl[d].bad = <<>>) =>
               rcv[Reader(d)] = snd[Writer(d)]

\* what is delivered is a prefix of what was sent, in order, unaltered
DeliveredPrefix == \A d \in Dirs : dl[d].bad = <<>> /\ dl[d].n <= nsent[d]
\* (weaker, for readers that go on after an error) up to the first error
PrefixBeforeFailure == \A d \in Dirs : ~rfail[d] => (dl[d].bad = <<>> /\ dl[d].n <= nsent[d])
\* every delivery is a message that was sent (false without ReaderStops: see MCObs)
DeliveredGenuine == \A d \in Dirs : \A i \in 1..Len(dl[d].bad) : dl[d].bad[i] > 0

\* A read (by a reader that has seen no error) yields data exactly when the stream head is
\* byte for byte the next message as its writer encrypted it: any modification, truncation,
\* reordering, replay or reflection that reaches the reader makes the read fail ...
\* (section by section: the header opens iff it is the next header, the body iff it is its body)
ReadOkIffIntact == (last.op \in {"Read", "RHeader", "RBody", "RHdrOpen", "RBodyOpen"} /\ ~last.prefail) =>
                      ((last.err = "") <=> last.intact)
\* (Conn.Read when it loads a message: the same, but for the announced empty-message case)
CLoadOkIffIntact == (last.op = "CLoad" /\ ~last.prefail) =>
                      /\ (last.err = "" => last.intact)
                      /\ (last.intact => (last.err = "" \/ (ConnEmptyEOFQuirk /\ last.err = "short" /\ last.dsz = 0)))
\* ... and what it yields then is that message
ReadYieldsNext == (last.op \in {"Read", "RBody", "RBodyOpen", "CLoad"} /\ ~last.prefail /\ last.did # 0) =>
                     \E d \in Dirs : Reader(d) = last.who /\ last.did = dl[d].n /\ dl[d].bad = <<>>

\* without an adversary the bytes in flight are the ciphertexts of the undelivered messages in
\* order, whole, the last one cut exactly where Flush stopped (a resumed flush never re-encrypts
\* and never repeats or skips a byte)
RECURSIVE InOrder(_, _, _, _)
InOrder(P, d, id, part) ==
  IF P = <<>> THEN TRUE
  ELSE LET s == Head(P) IN
       /\ s.dir = d /\ s.id = id /\ s.part = part /\ s.from = 0 /\ ~s.alt
       /\ (Tail(P) # <<>> => s.to = s.len)
       /\ InOrder(Tail(P), d, IF part = "h" THEN id ELSE id + 1, IF part = "h" THEN "b" ELSE "h")
\* the stream from the first byte of the message its reader is in the middle of (the bytes a read call in
\* progress has taken off the wire, then the wire)
VPipe(d) == LET q == rip[Reader(d)] IN Norm(q.hp \o q.ps \o pipe[d])
EndsRight(d, P) ==
  LET p == pend[Writer(d)]
      z == P[Len(P)]
      wholeUpTo(k) == IF P = <<>> THEN dl[d].n = k
                      ELSE z.part = "b" /\ z.to = z.len /\ z.id = k
  IN IF p.hl + p.bl = 0 THEN wholeUpTo(nsent[d])
     ELSE IF p.hl = HDR THEN wholeUpTo(nsent[d] - 1)
     ELSE /\ P # <<>> /\ z.id = nsent[d]
          /\ IF p.hl > 0 THEN z.part = "h" /\ z.to = HDR - p.hl
             ELSE IF p.bl = p.bc.len THEN z.part = "h" /\ z.to = z.len
             ELSE z.part = "b" /\ z.to = z.len - p.bl
PristinePipe == \A d \in Dirs :
  (nadv = 0 /\ ~rfail[d] /\ hs[Writer(d)] = "done") =>
     InOrder(VPipe(d), d, dl[d].n + 1, "h") /\ EndsRight(d, VPipe(d))
\* Flush reports exactly the plaintext bytes that left the buffer
FlushCount == \A m \in Machines : fl[m].got = fl[m].size - Max(0, pend[m].bl - MAC)

\* no (key, nonce) pair is used to encrypt twice
NoNonceReuse == ~reuse
\* the two directions never encrypt under the same key
DistinctSendKeys == BothDone => snd["A"].key # snd["B"].key

TypeOK == /\ \A m \in Machines : snd[m].n < ROT /\ rcv[m].n < ROT /\ snd[m].n >= 0 /\ rcv[m].n >= 0
          /\ \A m \in Machines : pend[m].hl >= 0 /\ pend[m].bl >= 0 /\ pend[m].hl <= HDR

-----------------------------------------------------------------------------
(* (a) delivered data is a value: what the caller holds are messages that were delivered to it, each once, *)
(* in the order it was handed them - whatever the Machine has done since (messages that Conn.Read loaded  *)
(* into readBuf were delivered too, but no caller holds them)                                             *)
HeldAreDelivered == \A d \in Dirs :
  LET H == held[d] IN
  (dl[d].bad = <<>>) => /\ \A i \in 1..Len(H) : H[i].id >= 1 /\ H[i].id <= dl[d].n
                        /\ \A i, j \in 1..Len(H) : i < j => H[i].id < H[j].id
(* (b) the halves of a Machine share nothing: a step of the read half of m leaves everything its write half *)
(* owns unchanged, and the other way round (action property)                                                *)
WOps == {"Write", "WStage", "WEncHdr", "WEncBody", "WEnc", "Flush", "FlushHdr", "FlushBody", "CWrite"}
ROps == {"Read", "RHeader", "RBody", "RHdrTake", "RHdrOpen", "RHdrLen", "RBodyTake", "RBodyOpen", "CRead", "CLoad",
         "Release", "Recheck"}
HalvesDisjointStep == \A m \in Machines :
  /\ (last'.who = m /\ last'.op \in ROps) => UNCHANGED WHalf(m)
  /\ (last'.who = m /\ last'.op \in WOps) => UNCHANGED RHalf(m)
HalvesDisjoint == [][HalvesDisjointStep]_vars
\* the program counters of the halves and what they stand for
HalfPcOK == \A m \in Machines :
  /\ wip[m].pc \in {"idle", "staged", "hdr", "flush"}
  /\ (wip[m].pc = "staged") => pend[m] = NoPend
  /\ (wip[m].pc = "hdr") => (pend[m].hl = HDR /\ pend[m].bl = 0)
  /\ (wip[m].pc = "flush") => (pend[m].hl = 0 /\ pend[m].bl = pend[m].bc.len /\ wip[m].k >= 0)
  /\ (wip[m].pc = "idle") => (pend[m] = NoPend \/ pend[m].bl >= 1)
  /\ rip[m].pc \in {"idle", "hin", "hopen", "hdr", "bin"}
  /\ (rip[m].pc = "hin") => Total(rip[m].ps) = HDR
  /\ (rip[m].pc \in {"hopen", "hdr"}) => (Total(rip[m].hp) = HDR /\ rip[m].ps = <<>> /\ rip[m].plen >= MAC)
  /\ (rip[m].pc = "bin") => Total(rip[m].ps) = rip[m].plen
(* (c) Conn.Read: the bytes handed out and the bytes still in readBuf are the payload of the messages it loaded *)
ConnAccounting == \A d \in Dirs : /\ cst[d].got + cbuf[Reader(d)].left = cst[d].loaded
                                  /\ cbuf[Reader(d)].left <= cbuf[Reader(d)].sz
=============================================================================
