SPECIFICATION MCSpec
CONSTANTS
  ROT = 3
  LEN = 1
  MAC = 1
  ActLen = 3
  Act3Len = 4
  MaxSize = 2
  ReaderStops = TRUE
  TrackUsed = TRUE
  MaxMsgs = 2
  MaxAdv = 1
  Sizes = {0, 1, 2}
  Vals = {0, 1}
  WDirs = {"ab", "ba"}
INVARIANTS TypeOK HsSound HsComplete HsWrongKey HsOrder KeysAgree InSync DeliveredPrefix DeliveredGenuine
  ReadOkIffIntact ReadYieldsNext PristinePipe FlushCount NoNonceReuse DistinctSendKeys
VIEW MCView
CHECK_DEADLOCK FALSE
