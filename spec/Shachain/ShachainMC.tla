---- MODULE ShachainMC ----
EXTENDS Shachain
====
