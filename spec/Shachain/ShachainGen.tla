---------------------------- MODULE ShachainGen ----------------------------
(* Behaviour generator: Shachain + a history of the operations taken, dumped *)
(* as one NDJSON file per simulated behaviour.  With H = 48 every behaviour  *)
(* starts with a Load at one of the structural patterns below.               *)
EXTENDS Shachain, Json
CONSTANTS MaxLen, UseLoad
VARIABLE hist

Pow(k)      == [b \in Bits |-> IF b = k THEN 1 ELSE 0]        \* 2^(k-1)
LowOnes(k)  == [b \in Bits |-> IF b <= k THEN 1 ELSE 0]       \* 2^k - 1
HoleAt(k)   == [b \in Bits |-> IF b = k THEN 0 ELSE 1]        \* all ones, one zero
HighOnes(k) == [b \in Bits |-> IF b > k THEN 1 ELSE 0]        \* run of ones at the top
Alt(p)      == [b \in Bits |-> IF b % 2 = p THEN 1 ELSE 0]
TwoBits(j, k) == [b \in Bits |-> IF b = j \/ b = k THEN 1 ELSE 0]
Patterns == {Pow(k) : k \in Bits} \cup {LowOnes(k) : k \in Bits} \cup {HoleAt(k) : k \in Bits}
            \cup {HighOnes(k) : k \in 1..(H-1)} \cup {Alt(0), Alt(1)}
            \cup {TwoBits(1, k) : k \in 2..H} \cup {TwoBits(k, H) : k \in 1..(H-1)}
            \cup {Dec(Pow(k)) : k \in 2..H} \cup {Dec(HighOnes(k)) : k \in 1..(H-1)}

Ev(a, g, i) == [a |-> a, good |-> g, i |-> i]
Rec(e) == hist' = Append(hist, e)

\* lookup targets: around the current index, the stored buckets, the patterns
Targets == {index, AllOnes} \cup (IF index = AllOnes THEN {} ELSE {Inc(index)})
           \cup (IF index = Zero THEN {} ELSE {Dec(index)})
           \cup {buckets[b].idx : b \in {c \in {0, 1, 2, len - 1, len - 2} \cap (0..H) : buckets[c] # NoEl}}
           \cup (IF UseLoad THEN {Pow(H), LowOnes(H - 1), Alt(0), HoleAt(1), HoleAt(H)} ELSE {})

GInit == Init /\ hist = <<>>
GNext == /\ Len(hist) < MaxLen
         /\ \/ UseLoad /\ hist = <<>> /\ \E i \in Patterns : Load(i) /\ Rec(Ev("Load", 1, i))
            \/ (UseLoad => hist # <<>>) /\
               \/ ~full /\ AddGood /\ Rec(Ev("Add", 1, index))
               \/ ~full /\ AddCorrupt /\ Rec(Ev("Add", 0, index))
               \/ Codec /\ Rec(Ev("Codec", 1, index))
               \/ \E i \in Targets : Lookup(i) /\ Rec(Ev("Lookup", 1, i))
GSpec == GInit /\ [][GNext]_<<vars, hist>>

Dump == (Len(hist) = MaxLen \/ full) =>
          ndJsonSerialize("b_" \o ToString(TLCGet("stats").traces) \o ".ndjson", hist)
=============================================================================
