SPECIFICATION TSpec
CONSTANTS
  H = 5
  MaxCorrupt = 1000000
INVARIANTS ConformOk ConformValue ConformState Bound49 Compact
CHECK_DEADLOCK TRUE
