SPECIFICATION TSpec
CONSTANTS
  H = 5
  MaxCorrupt = 1000000
INVARIANTS ProducerExact ConformOk ConformValue ConformState Bound49 Compact
CHECK_DEADLOCK TRUE
