SPECIFICATION GSpec
CONSTANTS
  H = 5
  MaxCorrupt = 1000000
  MaxLen = 60
  UseLoad = FALSE
INVARIANTS Dump
CHECK_DEADLOCK FALSE
