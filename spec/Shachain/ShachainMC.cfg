SPECIFICATION Spec
CONSTANTS
  H = 5
  MaxCorrupt = 3
INVARIANTS Compact Exact NoFuture AcceptIffConsistent RejectCorrupt CanonState
CHECK_DEADLOCK FALSE
