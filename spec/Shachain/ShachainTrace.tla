--------------------------- MODULE ShachainTrace ---------------------------
(* Trace validation: every recorded call of the real RevocationStore must   *)
(* be the corresponding Shachain action, and what the real store answered   *)
(* (accept/reject, lenBuckets, next index, encoded size, lookup verdict)    *)
(* must equal the model's state after that action.                          *)
EXTENDS Shachain, Json
VARIABLE l

Trace == ndJsonDeserialize("trace.ndjson")
Last == Trace[l - 1]

TInit == Init /\ l = 1
Is(a) == l <= Len(Trace) /\ Trace[l].a = a /\ l' = l + 1
Idx(j) == [b \in Bits |-> j[b]]

Reset == /\ Is("Reset")
         /\ buckets' = [b \in 0..H |-> NoEl] /\ len' = 0 /\ index' = AllOnes /\ full' = FALSE
         /\ received' = {} /\ ncorrupt' = 0
         /\ last' = [op |-> "init", ok |-> TRUE, fam |-> "none", idx |-> AllOnes]

TNext == \/ Is("Load") /\ Load(Idx(Trace[l].i))
         \/ Is("Add") /\ Trace[l].good = 1 /\ AddGood
         \/ Is("Add") /\ Trace[l].good = 0 /\ AddCorrupt
         \/ Is("Codec") /\ Codec
         \/ Is("Lookup") /\ Lookup(Idx(Trace[l].i))
         \/ Reset
         \/ (l = Len(Trace) + 1 /\ UNCHANGED <<vars, l>>)
TSpec == TInit /\ [][TNext]_<<vars, l>>

Live == l > 1 /\ Last.a # "Reset"
B(x) == IF x THEN 1 ELSE 0
\* accept/reject and lookup found/not-found agree
ConformOk    == Live => Last.ok = B(last.ok)
\* a found secret is the counterparty's real one exactly when the model says so
ConformValue == (Live /\ Last.a = "Lookup" /\ last.ok) => Last.isgood = B(last.fam = "good")
\* lenBuckets, next index and the encoded size (1 + 40*len + 8 bytes)
\* C06 "the secrets it sends follow its own derivation chain": the producer's answer for the next index equals an
\* independent BOLT-3 derivation from the seed (Go-side oracle bit), also after the caller changed a returned value
ProducerExact == Live => Last.pexact = 1
ConformState == Live => /\ Last.nb = len
                        /\ (~full => Idx(Last.nidx) = index)
                        /\ Last.enc = 1 + 40 * len + 8
\* the property itself, on the trace: never more than H+1 values
Bound49      == Live => Last.nb <= H + 1
=============================================================================
