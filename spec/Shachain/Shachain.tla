------------------------------ MODULE Shachain ------------------------------
(***************************************************************************)
(* The receiver side of BOLT-3 per-commitment secret storage as lnd         *)
(* implements it (shachain/store.go, element.go, utils.go).                 *)
(*                                                                          *)
(* Secrets are abstract: a value is [fam, idx] - the family it belongs to   *)
(* ("good" = the counterparty's real derivation tree, or the identity of a  *)
(* corrupted secret) and the tree index it claims.  Deriving a value to a   *)
(* lower node keeps the family; two values are equal iff family and index   *)
(* are equal (SHA-256 is assumed collision free and one-way).               *)
(*                                                                          *)
(* An index is a sequence of H bits, least significant first, so that the   *)
(* same module is model checked with H = 4..8 and used to validate traces   *)
(* of the real store with H = 48 (2^48 does not fit TLC's integers).        *)
(* Indexes count DOWN from 2^H-1 as in the code.                            *)
(***************************************************************************)
EXTENDS Naturals, Sequences, FiniteSets, TLC

CONSTANTS H,            \* tree height (48 in lnd)
          MaxCorrupt    \* bound on corrupted insert attempts (MC only)

Bits    == 1..H
AllOnes == [b \in Bits |-> 1]
Zero    == [b \in Bits |-> 0]
NoEl    == [fam |-> "none", idx |-> Zero]

Good(i) == [fam |-> "good", idx |-> i]

\* number of trailing zero bits; H for index 0 (countTrailingZeros)
Ctz(i) == IF \A b \in Bits : i[b] = 0 THEN H
          ELSE (CHOOSE b \in Bits : i[b] = 1 /\ \A c \in 1..(b-1) : i[c] = 0) - 1

\* i - 1 for i # 0
Dec(i) == LET z == Ctz(i) IN
          [b \in Bits |-> IF b <= z THEN 1 ELSE IF b = z + 1 THEN 0 ELSE i[b]]

\* i + 1 for i # 2^H-1
Inc(i) == LET o == IF \A b \in Bits : i[b] = 1 THEN H
                   ELSE (CHOOSE b \in Bits : i[b] = 0 /\ \A c \in 1..(b-1) : i[c] = 1) - 1 IN
          [b \in Bits |-> IF b <= o THEN 0 ELSE IF b = o + 1 THEN 1 ELSE i[b]]

\* index.deriveBitTransformations succeeds: `to` lies in the subtree of `from`
Derivable(from, to) == \A b \in (Ctz(from)+1)..H : from[b] = to[b]

Derive(v, to) == [fam |-> v.fam, idx |-> to]

\* a < b as numbers
Less(a, b) == \E k \in Bits : a[k] < b[k] /\ \A c \in (k+1)..H : a[c] = b[c]

VARIABLES buckets,   \* 0..H -> element or NoEl      (RevocationStore.buckets)
          len,       \* RevocationStore.lenBuckets
          index,     \* next index to be inserted      (RevocationStore.index)
          full,      \* index 0 has been inserted (the code's index would wrap)
          received,  \* history: set of accepted values
          ncorrupt,  \* history: corrupted attempts so far
          last       \* observation of the last operation

vars == <<buckets, len, index, full, received, ncorrupt, last>>

Init == /\ buckets = [b \in 0..H |-> NoEl]
        /\ len = 0
        /\ index = AllOnes
        /\ full = FALSE
        /\ received = {}
        /\ ncorrupt = 0
        /\ last = [op |-> "init", ok |-> TRUE, fam |-> "none", idx |-> AllOnes]

(* The state the store is in after all good secrets above `i` were         *)
(* inserted (next index = i): bucket b holds the smallest index j > i with *)
(* exactly b trailing zeros, if there is one.  Used to start a trace at a  *)
(* structurally chosen point of the 2^48 space (NewRevocationStoreFromBytes*)
(* on producer-derived buckets).                                           *)
AddBit(i, k) ==  \* i + 2^(k-1); only used when it does not overflow
  LET c == CHOOSE x \in k..H : i[x] = 0 /\ \A y \in k..(x-1) : i[y] = 1 IN
  [x \in Bits |-> IF x < k THEN i[x] ELSE IF x < c THEN 0 ELSE IF x = c THEN 1 ELSE i[x]]
CanonBucket(i, b) ==
  LET k == b + 1 IN
  IF b >= H THEN NoEl
  ELSE IF i[k] = 0
       THEN Good([x \in Bits |-> IF x < k THEN 0 ELSE IF x = k THEN 1 ELSE i[x]])
  ELSE IF \E x \in (k+1)..H : i[x] = 0
       THEN LET i2 == AddBit(i, k + 1) IN
            Good([x \in Bits |-> IF x < k THEN 0 ELSE IF x = k THEN 1 ELSE i2[x]])
  ELSE NoEl
CanonLen(i) == IF \A b \in 0..H : CanonBucket(i, b) = NoEl THEN 0
               ELSE 1 + CHOOSE b \in 0..H : CanonBucket(i, b) # NoEl /\
                                            \A c \in (b+1)..H : CanonBucket(i, c) = NoEl

\* start from the canonical all-good store whose next index is i
Load(i) == /\ buckets' = [b \in 0..H |-> CanonBucket(i, b)]
           /\ len' = CanonLen(i)
           /\ index' = i
           /\ full' = FALSE
           /\ received' = {}
           /\ ncorrupt' = 0
           /\ last' = [op |-> "load", ok |-> TRUE, fam |-> "none", idx |-> i]

(* AddNextEntry, transcribed: check the new element against every lower    *)
(* bucket, store it in bucket ctz(index), extend lenBuckets, decrement.     *)
BucketOf == Ctz(index)
Accepts(v) == \A b \in 0..(BucketOf - 1) :
                 /\ Derivable(index, buckets[b].idx)
                 /\ Derive(v, buckets[b].idx) = buckets[b]

\* Declarative: consistent with everything received earlier
Consistent(v) == \A r \in received : Derivable(v.idx, r.idx) => Derive(v, r.idx) = r

Add(v, tag) ==
  /\ ~full
  /\ v.idx = index
  /\ IF Accepts(v)
       THEN /\ buckets' = [buckets EXCEPT ![BucketOf] = v]
            /\ len' = IF BucketOf + 1 > len THEN BucketOf + 1 ELSE len
            /\ IF index = Zero THEN full' = TRUE /\ index' = index
                               ELSE full' = FALSE /\ index' = Dec(index)
            /\ received' = received \cup {v}
            /\ last' = [op |-> tag, ok |-> TRUE, fam |-> v.fam, idx |-> v.idx]
       ELSE /\ UNCHANGED <<buckets, len, index, full, received>>
            /\ last' = [op |-> tag, ok |-> FALSE, fam |-> v.fam, idx |-> v.idx]

AddGood == Add(Good(index), "good") /\ UNCHANGED ncorrupt

AddCorrupt == /\ ncorrupt < MaxCorrupt
              /\ ncorrupt' = ncorrupt + 1
              /\ Add([fam |-> "c" \o ToString(ncorrupt + 1), idx |-> index], "corrupt")

\* Encode + NewRevocationStoreFromBytes: identity on the abstract state
Codec == /\ last' = [op |-> "codec", ok |-> TRUE, fam |-> "none", idx |-> index]
         /\ UNCHANGED <<buckets, len, index, full, received, ncorrupt>>

\* LookUp: first bucket (in order) from which the index derives
LookupRes(i) ==
  LET hits == {b \in 0..(len - 1) : buckets[b] # NoEl /\ Derivable(buckets[b].idx, i)} IN
  IF hits = {} THEN [ok |-> FALSE, fam |-> "none"]
  ELSE LET b == CHOOSE x \in hits : \A y \in hits : x <= y IN
       [ok |-> TRUE, fam |-> buckets[b].fam]

Lookup(i) == /\ last' = [op |-> "lookup", ok |-> LookupRes(i).ok, fam |-> LookupRes(i).fam, idx |-> i]
             /\ UNCHANGED <<buckets, len, index, full, received, ncorrupt>>

Next == AddGood \/ AddCorrupt \/ Codec

Spec == Init /\ [][Next]_vars

-----------------------------------------------------------------------------
AllGood == \A r \in received : r.fam = "good"

\* C06: at most H+1 (= 49) stored values
Compact == /\ len <= H + 1
           /\ Cardinality({b \in 0..H : buckets[b] # NoEl}) <= H + 1
           /\ \A b \in 0..H : b >= len => buckets[b] = NoEl

\* C06: every received secret of a valid chain is reproduced exactly
Exact == AllGood => \A r \in received : LookupRes(r.idx) = [ok |-> TRUE, fam |-> "good"]

\* nothing that was not received can be produced
NoFuture == \A i \in {index} : (~full /\ AllGood) => LookupRes(i).ok = FALSE

\* C06: a secret is accepted iff it is consistent with all earlier ones
\* (the code only looks at the buckets; this is the equivalence TLC checks)
AcceptIffConsistent ==
  ~full => /\ Accepts(Good(index)) <=> Consistent(Good(index))
           /\ Accepts([fam |-> "x", idx |-> index]) <=> Consistent([fam |-> "x", idx |-> index])

\* a corrupted secret is accepted only where no earlier secret constrains it
RejectCorrupt == (last.op = "corrupt" /\ last.ok) =>
                    \A r \in received : r.idx # last.idx => ~Derivable(last.idx, r.idx)

\* in a valid chain the canonical state is what the store holds (ties Load to Add)
CanonState == (AllGood /\ ~full) => /\ \A b \in 0..H : buckets[b] = CanonBucket(index, b)
                                   /\ len = CanonLen(index)
=============================================================================
