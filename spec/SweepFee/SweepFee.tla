------------------------------- MODULE SweepFee -------------------------------
(***************************************************************************)
(* C18: sweeps never pay fees beyond their budget and ramp up to it by the  *)
(* deadline.                                                                *)
(*                                                                          *)
(* Three layers of lnd's sweep package, as the code keeps them:             *)
(*                                                                          *)
(*  1. sweep.LinearFeeFunction (fee_function.go): the variable `ff' holds   *)
(*     exactly its fields startingFeeRate, endingFeeRate, currentFeeRate    *)
(*     (sat/kw), width, position and deltaFeeRate (msat/kw).  Actions       *)
(*     NewLinearFeeFunction / Increment / IncreaseFeeRate(confTarget).      *)
(*                                                                          *)
(*  2. sweep.TxPublisher for ONE BumpRequest (fee_bumper.go): the variable  *)
(*     `rq' is the request (budget, MaxFeeRate, deadline, the input set as  *)
(*     sums, weight of the sweep tx, dust limit of the change script) plus  *)
(*     the environment (relay fee, estimator answer); `pc' is the place     *)
(*     inside handleInitialBroadcast / handleFeeBumpTx; one action per call *)
(*     the code makes on the fee function, the tx generator and the wallet: *)
(*     Init (MaxFeeRateAllowed + NewLinearFeeFunction), BeginCreate         *)
(*     (createAndCheckTx -> createSweepTx/prepareSweepTx + budget check),   *)
(*     Check (Wallet.CheckMempoolAcceptance, the answer is environment),    *)
(*     Inc (Increment in the createRBFCompliantTx loop and in               *)
(*     calculateRetryFeeRate), Bump (IncreaseFeeRate at a new block),       *)
(*     Pub (Wallet.PublishTransaction), Done (the BumpResult).              *)
(*                                                                          *)
(*  3. the sweeper above the publisher (sweeper.go: sweepPendingInputs ->   *)
(*     sweep): the BumpRequest is BUILT by UtxoSweeper.sweep from the       *)
(*     sweeper's configuration and the input set.  The request record `rq'  *)
(*     therefore carries, next to what reached the publisher (budget,       *)
(*     maxrate, deadline, sopt), what the property talks about:             *)
(*       cfgvb      the configured maximum (sweeper.maxfeerate, in sat/vb - *)
(*                  the unit of the configuration; 1 sat/vb = 250 sat/kw)   *)
(*       inbudget   the sum of the budgets attached to the inputs           *)
(*       indeadline the deadline attached to the inputs                     *)
(*     and SweepReq(c, s) is the request sweep() has to build (action       *)
(*     Request).  "No larger than the configured maximum" and "reaches the  *)
(*     lesser of budget-over-size and the maximum" are stated against       *)
(*     CfgMax = 250 * cfgvb and inbudget, and the request must carry        *)
(*     exactly those (SweepMaxIsConfigured, SweepBudgetIsInputs,            *)
(*     SweepDeadlineIsInputs - like RegroupStart for the starting rate).    *)
(*                                                                          *)
(* INPUT UNIVERSE of a request: plain inputs, inputs with a required output *)
(* (reqout), wallet top-ups (part of totalin/weight), and inputs that carry *)
(* unconfirmed-parent info (input.TxInfo: the anchor used to CPFP a force   *)
(* close): pweight/pfee are the weight and fee of that parent (0/0: none),  *)
(* at any fee rate below, at or above the rate on offer.  The fee of the    *)
(* sweep tx is the offered rate over the tx's OWN weight (CreateReq does    *)
(* not read pweight/pfee: prepareSweepTx uses estimator.fee(), the parent   *)
(* totals are only logged), so that the published tx itself - fee = inputs  *)
(* - outputs over its own weight - stays at the offered rate and below the  *)
(* configured maximum (PubTxRateLeCfgMax; on the recorded transaction:      *)
(* TxRateLeCfgMax and TxPaysOfferedRate in SweepFeeTrace).                  *)
(* Inputs of custom channels (a resolution blob) make the aux sweeper add an *)
(* EXTRA OUTPUT to the sweep tx and an extra budget to the set: xout is the  *)
(* value of that output (0: none; it is part of reqout - prepareSweepTx adds *)
(* it to the required outputs) and xbudget the aux sweeper's budget          *)
(* (BudgetInputSet.extraBudget, part of the request's budget).  `weight' is  *)
(* the weight of the tx that is actually BUILT, extra output included: the   *)
(* ceiling of the property is budget over THAT size, the fee function's      *)
(* ending rate must be exactly it (InitFF: e \in EndRates), so that the tx   *)
(* at the ceiling is one createAndCheckTx accepts (PubCeilByDeadline speaks  *)
(* about published, i.e. accepted, transactions only).                       *)
(*                                                                          *)
(* ESTIMATOR / DEADLINE DOMAIN.  StartOf has the three regimes of            *)
(* NewLinearFeeFunction: conf target <= 1 (flat at the ending rate), 2..1007 *)
(* (FeeEstimateInfo.Estimate: error, below the relay fee -> error, capped at *)
(* the ending rate) and >= 1008 (the relay fee, which on bitcoind is         *)
(* max(minrelaytxfee, mempoolminfee)).  The relay fee may lie below, between *)
(* or ABOVE the configured maximum and the budget rate; whatever its source, *)
(* the starting rate is capped at the ending rate (ClampedStart), so that    *)
(* nothing is offered above the ceiling and the rate never decreases.        *)
(*                                                                          *)
(* RESULTS.  Besides Published / Replaced / Failed / Fatal the publisher     *)
(* reports Confirmed (handleTxConfirmed) and UnknownSpend                    *)
(* (handleUnknownSpent: a tx the publisher does not know spends some of the  *)
(* inputs; the result carries the next rate of the fee function - like a     *)
(* failed bump - as the starting rate of the re-sweep of the other inputs).  *)
(* All but Published / Replaced remove the record.  What the SWEEPER does    *)
(* with a result, input by input, is module SweepLife.                       *)
(*                                                                          *)
(* ARITHMETIC.  All rates are integers in sat/kw, deltaFeeRate in msat/kw,  *)
(* fees in sat.  FeeForWeight is integer (floor).  Three values are         *)
(* computed by the code through float64 (btcutil.Amount.MulF64 = round to   *)
(* nearest, half away from zero, of a float product):                       *)
(*     delta      = round((end-start) * (1000/width))                       *)
(*     rate(p)    = start + round(delta * (p/1000))      (capped at end)    *)
(*     budgetRate = round(budget * (1000/weight))        (NewSatPerKWeight) *)
(* For rates <= 2*10^6 sat/kw, widths <= 1010 and weights <= 10^5 the float *)
(* error (< 10^-5) is far below the distance of any non-tie from .5         *)
(* (>= 1/2020, 1/1000, 1/(2*weight)), so the result is the exact nearest    *)
(* integer except at EXACT ties, where the float product decides (measured: *)
(* both directions occur).  The spec therefore fixes every value exactly    *)
(* and allows both neighbours at an exact tie (NearestQ).                   *)
(*                                                                          *)
(* DEVIATIONS of the code from what the property needs, as constants.  The   *)
(* committed values in the cfg files are the REPAIRED ones; which value the *)
(* code follows is decided in every run by the directed replay of           *)
(* spec/SweepFee/directed (vlib/props/c18.py), and a deviating value is     *)
(* reported as a violation (findings F12, F13):                             *)
(*   RoundCeil  = TRUE : MaxFeeRateAllowed rounds budget/weight to NEAREST  *)
(*                (F12).  The ending rate can then cost more than the       *)
(*                budget (weight >= 2000): the tx at the ceiling is refused *)
(*                by the budget check and the ceiling is never offered.     *)
(*                FALSE: floor (every rate <= end is payable).              *)
(*   ClampStart = FALSE: an explicit StartingFeeRate (or the relay fee used *)
(*                for conf targets >= 1008) above the ending rate is taken  *)
(*                as is (F13): current > end, delta < 0, and the rate       *)
(*                DEcreases to end at the next step.  TRUE: start is capped *)
(*                at the ending rate.                                       *)
(* With a deviating value the invariants below are stated outside the exact *)
(* trigger of the deviation (CeilTrigger, StartTrigger - both FALSE in the  *)
(* repaired model); the *All variants at the end are the unguarded ones.    *)
(*                                                                          *)
(* READING of "reaches its ceiling no later than one block before the       *)
(* deadline": width = initial conf target - 1 and IncreaseFeeRate(ct) moves *)
(* the position to initial - ct, so the first call with ct <= 1 (deadline - *)
(* height <= 1) puts position >= width, where the rate IS the ending rate   *)
(* (FFCeilAtWidth, FFCeilByDeadline).  For the published tx: once a handler *)
(* has run with ct <= 1 the tx on offer is built at a rate >= the ceiling   *)
(* min(floor(budget*1000/weight), MaxFeeRate) and still fits the budget     *)
(* (PubCeilByDeadline, PubRateLeCeil) - unless the network refused a tx or  *)
(* the inputs cannot pay the ceiling at all.                                *)
(***************************************************************************)
EXTENDS Integers, Sequences, FiniteSets, TLC

CONSTANTS RoundCeil, ClampStart,
          PNew,        \* standalone fee functions: records [maxrate, ct, sopt, est, relay]
          PReq,        \* bump requests: records (see Request)
          PConf,       \* conf targets offered to IncreaseFeeRate in fee-function mode
          PHeights,    \* block heights at which the publisher is driven
          PAns,        \* mempool answers: subset of {"ok", "lowfee", "minfee", "reject"}
          PPub         \* publish answers: subset of {"ok", "fail"}

Min(a, b) == IF a < b THEN a ELSE b
Max(a, b) == IF a > b THEN a ELSE b

(* the integers nearest to x/y (y > 0); both neighbours at an exact tie     *)
NearestQ(x, y) == LET q == x \div y
                      r == x - q * y
                  IN  IF 2 * r < y THEN {q} ELSE IF 2 * r > y THEN {q + 1} ELSE {q, q + 1}

(* chainfee.SatPerKWeight.FeeForWeight: rate*weight/1000 rounded down       *)
(* (restated so that the product stays below 2^31)                          *)
FeeFor(rate, w) == (rate \div 1000) * w + ((rate % 1000) * w) \div 1000

(* budget*1000/weight: rounded down / to nearest (NewSatPerKWeight)         *)
BudgetRateFloor(b, w) == 1000 * (b \div w) + (1000 * (b % w)) \div w
BudgetRateNear(b, w)  == {1000 * (b \div w) + x : x \in NearestQ(1000 * (b % w), w)}

-----------------------------------------------------------------------------
VARIABLES ff,     \* the LinearFeeFunction
          rq,     \* the bump request and its environment (publisher mode)
          pc,     \* "none" | "ff" | publisher control points
          mode,   \* "initial" | "bump": which handler is running
          tx,     \* result of the last createSweepTx + budget check
          pub,    \* the last tx handed to PublishTransaction successfully
          res,    \* the BumpResult the running handler will deliver
          last,   \* observation of the last fee function call
          g       \* ghost: what the property talks about

vars == <<ff, rq, pc, mode, tx, pub, res, last, g>>

NoFF  == [live |-> FALSE, start |-> 0, end |-> 0, width |-> 0, pos |-> 0, cur |-> 0, delta |-> 0]
NoRq  == [budget |-> 0, weight |-> 1, maxrate |-> 0, relay |-> 0, totalin |-> 0, reqout |-> 0,
          dust |-> 0, deadline |-> 0, sopt |-> -1, est |-> 0, prevmax |-> 0,
          cfgvb |-> 0, inbudget |-> 0, indeadline |-> 0, pweight |-> 0, pfee |-> 0,
          xout |-> 0, xbudget |-> 0]
NoTx  == [err |-> "none", rate |-> 0, fee |-> 0, change |-> 0]
NoPub == [n |-> 0, rate |-> 0, fee |-> 0, change |-> 0]
NoRes == [event |-> "none", err |-> "none", rate |-> 0]
NoLast == [op |-> "none", inc |-> FALSE, err |-> "none"]
G0    == [prev |-> -1,       \* current rate before the last fee function step (-1: fresh function)
          minct |-> 100000,  \* smallest conf target the live function has been asked for
          mono |-> TRUE,     \* published rates never decreased
          first |-> -1,      \* rate of the first published tx
          envok |-> TRUE]    \* mempool / network never refused a tx for another reason than "fee too low, retry"

Init == /\ ff = NoFF /\ rq = NoRq /\ pc = "none" /\ mode = "initial" /\ tx = NoTx
        /\ pub = NoPub /\ res = NoRes /\ last = NoLast /\ g = G0

-----------------------------------------------------------------------------
(* NewLinearFeeFunction                                                     *)

(* the starting rate: explicit, or relay fee for far deadlines, or          *)
(* FeeEstimateInfo.Estimate (error, below relay fee -> error, capped at the *)
(* ending rate unless that is 0).  sopt = -1: none; est = -1: estimator err *)
StartOf(maxrate, ct, sopt, est, relay) ==
  IF sopt >= 0 THEN [err |-> "none", v |-> sopt]
  ELSE IF ct >= 1008 THEN [err |-> "none", v |-> relay]
  ELSE IF est < 0 THEN [err |-> "estimator", v |-> 0]
  ELSE IF est < relay THEN [err |-> "toolow", v |-> 0]
  ELSE IF maxrate # 0 /\ est > maxrate THEN [err |-> "none", v |-> maxrate]
  ELSE [err |-> "none", v |-> est]

ClampedStart(maxrate, ct, sopt, est, relay) ==
  LET s == StartOf(maxrate, ct, sopt, est, relay).v
  IN  IF ClampStart THEN Min(s, maxrate) ELSE s

(* the values deltaFeeRate may take *)
DeltaChoices(maxrate, ct, sopt, est, relay) ==
  IF ct <= 1 \/ StartOf(maxrate, ct, sopt, est, relay).err # "none" THEN {0}
  ELSE NearestQ((maxrate - ClampedStart(maxrate, ct, sopt, est, relay)) * 1000, ct - 1)

NewFF(maxrate, ct, sopt, est, relay, dl) ==
  IF ct <= 1
    THEN [err |-> "none", f |-> [live |-> TRUE, start |-> maxrate, end |-> maxrate, width |-> 0,
                                  pos |-> 0, cur |-> maxrate, delta |-> 0]]
  ELSE LET s == StartOf(maxrate, ct, sopt, est, relay)
           st == ClampedStart(maxrate, ct, sopt, est, relay)
       IN  IF s.err # "none" THEN [err |-> s.err, f |-> NoFF]
           ELSE IF dl = 0 /\ ct - 1 # 1 THEN [err |-> "zerodelta", f |-> NoFF]
           ELSE [err |-> "none", f |-> [live |-> TRUE, start |-> st, end |-> maxrate, width |-> ct - 1,
                                         pos |-> 0, cur |-> st, delta |-> dl]]

(* feeRateAtPosition *)
RateAt(f, p) ==
  IF p >= f.width THEN {f.end}
  ELSE {IF f.start + x > f.end THEN f.end ELSE f.start + x : x \in NearestQ(f.delta * p, 1000)}

(* Increment = increaseFeeRate(position+1): the only place (with FFBump)     *)
(* where position and current rate change.  r is the new current rate.      *)
FFIncE(r, envok) ==
  /\ ff.live
  /\ IF ff.pos >= ff.width
       THEN /\ r = ff.cur /\ ff' = ff
            /\ last' = [op |-> "inc", inc |-> FALSE, err |-> "maxpos"]
       ELSE /\ r \in RateAt(ff, ff.pos + 1)
            /\ ff' = [ff EXCEPT !.pos = ff.pos + 1, !.cur = r]
            /\ last' = [op |-> "inc", inc |-> r > ff.cur, err |-> "none"]
  /\ g' = [g EXCEPT !.prev = ff.cur, !.envok = @ /\ envok]
FFInc(r) == FFIncE(r, TRUE)

(* IncreaseFeeRate(confTarget): position := width + 1 - confTarget if that  *)
(* is ahead of the current position (conf targets >= width+1 map to 0)      *)
NewPos(ct) == IF ct < ff.width + 1 THEN ff.width + 1 - ct ELSE 0
FFBump(ct, r) ==
  /\ ff.live
  /\ IF NewPos(ct) <= ff.pos
       THEN /\ r = ff.cur /\ ff' = ff
            /\ last' = [op |-> "bump", inc |-> FALSE, err |-> "none"]
     ELSE IF ff.pos >= ff.width
       THEN /\ r = ff.cur /\ ff' = ff
            /\ last' = [op |-> "bump", inc |-> FALSE, err |-> "maxpos"]
     ELSE /\ r \in RateAt(ff, NewPos(ct))
          /\ ff' = [ff EXCEPT !.pos = NewPos(ct), !.cur = r]
          /\ last' = [op |-> "bump", inc |-> r > ff.cur, err |-> "none"]
  /\ g' = [g EXCEPT !.prev = ff.cur, !.minct = Min(@, ct)]

-----------------------------------------------------------------------------
(* fee function mode: a standalone LinearFeeFunction                        *)
New(p, dl) ==
  /\ pc = "none"
  /\ dl \in DeltaChoices(p.maxrate, p.ct, p.sopt, p.est, p.relay)
  /\ LET n == NewFF(p.maxrate, p.ct, p.sopt, p.est, p.relay, dl)
     IN  /\ ff' = n.f
         /\ last' = [op |-> "new", inc |-> FALSE, err |-> n.err]
         /\ g' = [G0 EXCEPT !.minct = p.ct]
  /\ rq' = [NoRq EXCEPT !.relay = p.relay, !.sopt = p.sopt, !.maxrate = p.maxrate, !.est = p.est,
                        !.prevmax = IF p.sopt > 0 THEN p.sopt ELSE 0]
  /\ pc' = "ff"
  /\ UNCHANGED <<mode, tx, pub, res>>

IncFF(r)  == pc = "ff" /\ FFInc(r) /\ UNCHANGED <<rq, pc, mode, tx, pub, res>>
BumpFF(ct, r) == pc = "ff" /\ FFBump(ct, r) /\ UNCHANGED <<rq, pc, mode, tx, pub, res>>

-----------------------------------------------------------------------------
(* publisher mode                                                           *)

(* REGROUPING.  Every input carries the fee rate it was offered last (its     *)
(* Params.StartingFeeRate: the retry rate of a failed sweep, the rate of a   *)
(* previous tx found at start-up, or the user's; 0 = none).  When the        *)
(* aggregator puts inputs into one set, BudgetInputSet.StartingFeeRate is    *)
(* the LARGEST of them (none if all are 0), and UtxoSweeper.sweep hands that *)
(* to the publisher as BumpRequest.StartingFeeRate.  A request is therefore  *)
(* given as p.prevmax (the largest rate any of its inputs was offered) and   *)
(* p.sopt, which must be SetStart(p.prevmax) (invariant RegroupStart).       *)
SetStart(prevmax) == IF prevmax > 0 THEN prevmax ELSE -1

(* THE SWEEPER'S REQUEST.  chainfee.SatPerVByte.FeePerKWeight: v*1000/4     *)
KwPerVb == 250
CfgMax(q) == KwPerVb * q.cfgvb
(* UtxoSweeper.sweep: the BumpRequest for an input set s                    *)
(*   [weight, totalin, reqout, dust, inbudget, indeadline, prevmax,          *)
(*    pweight, pfee, xout, xbudget]   (reqout: required outputs of the       *)
(*    inputs; the aux sweeper's extra output xout is added to it)            *)
(* under the sweeper's configuration and environment c [maxvb, relay, est]   *)
SweepReq(c, s) ==
  [budget |-> s.inbudget + s.xbudget, maxrate |-> KwPerVb * c.maxvb, deadline |-> s.indeadline,
   sopt |-> SetStart(s.prevmax), weight |-> s.weight, totalin |-> s.totalin, reqout |-> s.reqout + s.xout,
   dust |-> s.dust, relay |-> c.relay, est |-> c.est, prevmax |-> s.prevmax,
   cfgvb |-> c.maxvb, inbudget |-> s.inbudget, indeadline |-> s.indeadline,
   pweight |-> s.pweight, pfee |-> s.pfee, xout |-> s.xout, xbudget |-> s.xbudget]

(* UtxoSweeper.sweep builds the request p (= SweepReq(config, set) in the     *)
(* model; in a trace: what the code built, judged by the Sweep* invariants)  *)
(* and hands it to the publisher: Broadcast -> storeInitialRecord            *)
Install(p) ==
  /\ rq' = p
  /\ pc' = "ready" /\ mode' = "initial"
  /\ ff' = NoFF /\ tx' = NoTx /\ pub' = NoPub /\ res' = NoRes /\ last' = NoLast /\ g' = G0
Request(p) == pc = "none" /\ Install(p)

(* the sweeper offers the inputs of a failed attempt again, starting at the  *)
(* rate the failed attempt handed back (sweeper.go markInputsPublishFailed); *)
(* the aggregator may group them differently (inputs dropped by its filter,  *)
(* other wallet inputs): any request p whose inputs carry that rate          *)
Regroup(p) ==
  /\ pc = "gone" /\ res.event = "Failed" /\ res.rate > 0
  /\ p.prevmax = res.rate          \* markInputsPublishFailed: every input of the failed set carries the rate
  /\ Install(p)
(* ... in the model: the same set again *)
Retry == Regroup([rq EXCEPT !.sopt = res.rate, !.prevmax = res.rate])

ConfAt(height) == Max(rq.deadline - height, 0)          \* calcCurrentConfTarget

(* BumpRequest.MaxFeeRateAllowed *)
EndRatesOf(q) == LET S == IF RoundCeil THEN BudgetRateNear(q.budget, q.weight)
                          ELSE {BudgetRateFloor(q.budget, q.weight)}
                 IN  {Min(x, q.maxrate) : x \in S}
EndRates == EndRatesOf(rq)

(* initializeFeeFunction; an error ends the handler (handleInitialTxError) *)
InitFF(height, e, dl) ==
  /\ pc = "ready"
  /\ e \in EndRates
  /\ dl \in DeltaChoices(e, ConfAt(height), rq.sopt, rq.est, rq.relay)
  /\ LET n == NewFF(e, ConfAt(height), rq.sopt, rq.est, rq.relay, dl)
     IN  /\ ff' = n.f
         /\ last' = [op |-> "new", inc |-> FALSE, err |-> n.err]
         /\ g' = [G0 EXCEPT !.minct = ConfAt(height)]
         /\ IF n.err = "none"
              THEN pc' = "create" /\ res' = NoRes
              ELSE /\ pc' = "fin"
                   /\ res' = [event |-> IF n.err = "zerodelta" THEN "Failed" ELSE "Fatal",
                              err |-> n.err, rate |-> 0]
  /\ mode' = "initial"
  /\ UNCHANGED <<rq, tx, pub>>

(* createSweepTx/prepareSweepTx at a rate, then the budget check of         *)
(* createAndCheckTx.  A change below the dust limit of the change script is *)
(* added to the fee (named: AbsorbDust); without a required output that is  *)
(* a tx without outputs and refused.  The fee is the rate over the weight of *)
(* the sweep tx alone: unconfirmed-parent info of an input (q.pweight,      *)
(* q.pfee) is not part of it, whatever the parent's own fee rate.           *)
CreateReq(q, rate) ==
  LET fee0 == FeeFor(rate, q.weight)
      chg  == q.totalin - q.reqout - fee0
  IN  IF q.reqout + fee0 > q.totalin THEN [err |-> "noinputs", rate |-> rate, fee |-> 0, change |-> 0]
      ELSE IF chg < q.dust /\ q.reqout = 0 THEN [err |-> "nooutput", rate |-> rate, fee |-> 0, change |-> 0]
      ELSE LET fee == IF chg < q.dust THEN fee0 + chg ELSE fee0
               out == IF chg < q.dust THEN 0 ELSE chg
           IN  IF fee > q.budget THEN [err |-> "budget", rate |-> rate, fee |-> fee, change |-> out]
               ELSE [err |-> "none", rate |-> rate, fee |-> fee, change |-> out]
CreateAt(rate) == CreateReq(rq, rate)

(* createAndCheckTx begins (reads FeeRate()); failures before the wallet is *)
(* asked end the attempt: initial -> TxFailed (no-output: without a retry   *)
(* rate), bump -> TxFailed with a retry rate                                *)
BeginCreate ==
  /\ pc = "create"
  /\ tx' = CreateAt(ff.cur)
  /\ IF tx'.err = "none" THEN pc' = "check" /\ UNCHANGED res
     ELSE IF tx'.err = "nooutput" /\ mode = "initial"
       THEN pc' = "fin" /\ res' = [event |-> "Failed", err |-> "nooutput", rate |-> 0]
     ELSE pc' = "retry" /\ res' = [event |-> "Failed", err |-> tx'.err, rate |-> 0]
  /\ UNCHANGED <<ff, rq, mode, pub, last, g>>

(* Wallet.CheckMempoolAcceptance answers: "ok"; "lowfee" (ErrInsufficientFee, *)
(* ErrMempoolFee) and "minfee" (ErrMinRelayFeeNotMet, ErrMempoolMinFeeNotMet) *)
(* make the initial broadcast climb; at a fee bump "lowfee" means "try again  *)
(* at the next block" while "minfee" - like any other refusal "reject" - ends *)
(* the record with TxFailed (handleReplacementTxError)                        *)
Check(ans) ==
  /\ pc = "check"
  /\ CASE ans = "ok"     -> pc' = "publish" /\ UNCHANGED <<res, g>>
       [] ans = "lowfee" -> IF mode = "initial"
                              THEN pc' = "incloop" /\ UNCHANGED <<res, g>>
                              ELSE /\ pc' = "fin" /\ res' = NoRes           \* retried at the next block
                                   /\ g' = [g EXCEPT !.envok = FALSE]
       [] ans = "minfee" -> IF mode = "initial"
                              THEN pc' = "incloop" /\ UNCHANGED <<res, g>>
                              ELSE /\ pc' = "retry" /\ res' = [event |-> "Failed", err |-> "minfee", rate |-> 0]
                                   /\ g' = [g EXCEPT !.envok = FALSE]
       [] ans = "reject" -> /\ g' = [g EXCEPT !.envok = FALSE]
                            /\ IF mode = "initial"
                                 THEN pc' = "fin" /\ res' = [event |-> "Fatal", err |-> "mempool", rate |-> 0]
                                 ELSE pc' = "retry" /\ res' = [event |-> "Failed", err |-> "mempool", rate |-> 0]
  /\ UNCHANGED <<ff, rq, mode, tx, pub, last>>

(* createRBFCompliantTx: Increment until the rate has increased *)
IncLoop(r) ==
  /\ pc = "incloop"
  /\ FFIncE(r, ff.pos < ff.width)      \* the mempool wants more than the ceiling: not ours to fix
  /\ IF last'.err = "maxpos"
       THEN pc' = "retry" /\ res' = [event |-> "Failed", err |-> "maxpos", rate |-> 0]
       ELSE /\ pc' = IF last'.inc THEN "create" ELSE "incloop"
            /\ UNCHANGED res
  /\ UNCHANGED <<rq, mode, tx, pub>>

(* calculateRetryFeeRate: one Increment whose error is ignored; the rate is *)
(* handed back as the starting rate of the next attempt                     *)
IncRetry(r) ==
  /\ pc = "retry"
  /\ FFInc(r)
  /\ pc' = "fin"
  /\ res' = [res EXCEPT !.rate = ff'.cur]
  /\ UNCHANGED <<rq, mode, tx, pub>>

(* Wallet.PublishTransaction *)
Pub(ans) ==
  /\ pc = "publish"
  /\ IF ans = "ok"
       THEN /\ pub' = [n |-> pub.n + 1, rate |-> tx.rate, fee |-> tx.fee, change |-> tx.change]
            /\ res' = [event |-> IF mode = "initial" THEN "Published" ELSE "Replaced",
                       err |-> "none", rate |-> tx.rate]
            /\ g' = [g EXCEPT !.mono = @ /\ (pub.n = 0 \/ tx.rate >= pub.rate),
                              !.first = IF pub.n = 0 THEN tx.rate ELSE @]
       ELSE /\ res' = [event |-> "Failed", err |-> "publish", rate |-> tx.rate]
            /\ g' = [g EXCEPT !.envok = FALSE]
            /\ UNCHANGED pub
  /\ pc' = "fin"
  /\ UNCHANGED <<ff, rq, mode, tx, last>>

(* the handler returns: the result goes to the sweeper; every result but    *)
(* Published / Replaced removes the record (removeResult)                   *)
Done ==
  /\ pc = "fin"
  /\ pc' = IF res.event \in {"Failed", "Fatal", "Confirmed", "UnknownSpend"} THEN "gone" ELSE "mon"
  /\ UNCHANGED <<ff, rq, mode, tx, pub, res, last, g>>

(* processRecords finds the monitored tx confirmed: handleTxConfirmed       *)
Confirmed ==
  /\ pc = "mon"
  /\ res' = [event |-> "Confirmed", err |-> "none", rate |-> ff.cur]
  /\ pc' = "fin"
  /\ UNCHANGED <<ff, rq, mode, tx, pub, last, g>>

(* processRecords finds inputs of the monitored tx spent by a tx it does not *)
(* know: handleUnknownSpent -> createUnknownSpentBumpResult ->               *)
(* calculateRetryFeeRate (one Increment whose error is ignored)              *)
UnknownSpend(r) ==
  /\ pc = "mon"
  /\ FFInc(r)
  /\ res' = [event |-> "UnknownSpend", err |-> "unknownspend", rate |-> ff'.cur]
  /\ pc' = "fin"
  /\ UNCHANGED <<rq, mode, tx, pub>>

(* a new block: handleFeeBumpTx -> IncreaseFeeRate(conf target); an error   *)
(* or "not increased" ends the handler without a tx                         *)
Bump(height, r) ==
  /\ pc = "mon"
  /\ FFBump(ConfAt(height), r)
  /\ mode' = "bump"
  /\ res' = NoRes
  /\ pc' = IF last'.err = "none" /\ last'.inc THEN "create" ELSE "fin"
  /\ UNCHANGED <<rq, tx, pub>>

-----------------------------------------------------------------------------
Next == \/ \E p \in PNew : \E dl \in DeltaChoices(p.maxrate, p.ct, p.sopt, p.est, p.relay) : New(p, dl)
        \/ \E r \in RateAt(ff, ff.pos + 1) \cup {ff.cur} : IncFF(r) \/ IncLoop(r) \/ IncRetry(r) \/ UnknownSpend(r)
        \/ Confirmed
        \/ \E ct \in PConf : \E r \in RateAt(ff, NewPos(ct)) \cup {ff.cur} : BumpFF(ct, r)
        \/ \E p \in PReq : Request(p)
        \/ Retry
        \/ \E h \in PHeights : \E e \in EndRates :
             \E dl \in DeltaChoices(e, ConfAt(h), rq.sopt, rq.est, rq.relay) : InitFF(h, e, dl)
        \/ BeginCreate
        \/ \E a \in PAns : Check(a)
        \/ \E a \in PPub : Pub(a)
        \/ Done
        \/ \E h \in PHeights : \E r \in RateAt(ff, NewPos(ConfAt(h))) \cup {ff.cur} : Bump(h, r)

Spec == Init /\ [][Next]_vars

-----------------------------------------------------------------------------
(* THE PROPERTY (from the statement, not from the code)                     *)

(* the ceiling of a request: the lesser of budget-over-size and the maximum *)
(* rate, in whole sat/kw                                                    *)
CeilingOf(q) == Min(BudgetRateFloor(q.budget, q.weight), q.maxrate)
Ceiling == CeilingOf(rq)
InPub == pc \notin {"none", "ff"}

(* The two deviations of the code can only show under these exact           *)
(* conditions (both are FALSE in the repaired model).  The invariants below  *)
(* are stated for every other case; that the code does have the deviations  *)
(* is established - and reported as a violation - by the directed replay.   *)
(*  - the ending rate the code computes (rounded to nearest) cannot be paid  *)
(*    although the ceiling can                                               *)
CeilTriggerOf(q) == RoundCeil /\ CreateReq(q, CeilingOf(q)).err = "none"
                              /\ \E e \in EndRatesOf(q) : CreateReq(q, e).err # "none"
CeilTrigger == CeilTriggerOf(rq)
(*  - the function was started above its ending rate                        *)
StartTrigger == ~ClampStart /\ ff.live /\ ff.start > ff.end

(* -- the fee function ---------------------------------------------------- *)
(* the offered rate never decreases *)
FFMonotone == (ff.live /\ g.prev >= 0 /\ ~StartTrigger) => ff.cur >= g.prev
(* it never exceeds the ending rate, which never exceeds what was allowed *)
FFBelowEnd == (ff.live /\ ~StartTrigger) => ff.cur <= ff.end
(* it starts at no less than the relay floor (for estimator answers; an     *)
(* explicit starting rate is the caller's, and a ceiling below the floor    *)
(* leaves no room)                                                          *)
FFAboveFloor == (ff.live /\ rq.sopt < 0 /\ rq.relay <= ff.end) => ff.cur >= rq.relay
(* the ceiling is reached when the position reaches the width ...           *)
FFCeilAtWidth == (ff.live /\ ff.pos >= ff.width) => ff.cur = ff.end
(* ... which is no later than when one block is left: width = initial conf  *)
(* target - 1 and position = initial - current conf target, so a conf       *)
(* target <= 1 means position >= width                                      *)
FFCeilByDeadline == (ff.live /\ g.minct <= 1) => ff.cur = ff.end
(* bookkeeping *)
FFShape == ff.live => /\ ff.pos >= 0 /\ ff.pos <= ff.width + 1
                      /\ (ff.pos = 0 => ff.cur = ff.start)

(* -- the published transactions ------------------------------------------ *)
PubFeeLeBudget  == (InPub /\ pub.n > 0) => pub.fee <= rq.budget
PubRateLeMax    == (InPub /\ pub.n > 0 /\ ~StartTrigger) => pub.rate <= rq.maxrate
(* "fee rate no larger than budget-over-size": the fee at the offered rate  *)
(* fits the budget                                                          *)
PubRateLeCeil   == (InPub /\ pub.n > 0) => FeeFor(pub.rate, rq.weight) <= rq.budget
PubNoDust       == (InPub /\ pub.n > 0) => (pub.change = 0 \/ pub.change >= rq.dust)
PubSomeOutput   == (InPub /\ pub.n > 0) => (pub.change > 0 \/ rq.reqout > 0)
PubMonotone     == g.mono \/ StartTrigger
PubAboveFloor   == (InPub /\ pub.n > 0 /\ rq.sopt < 0 /\ rq.relay <= Ceiling) => g.first >= rq.relay
(* fee = rate*weight/1000 plus at most an absorbed sub-dust change *)
PubFeeExact     == (InPub /\ pub.n > 0) =>
                      /\ pub.fee >= FeeFor(pub.rate, rq.weight)
                      /\ pub.fee < FeeFor(pub.rate, rq.weight) + Max(rq.dust, 1)
                      /\ (pub.change > 0 => pub.fee = FeeFor(pub.rate, rq.weight))
(* by the time one block is left (a handler ran with conf target <= 1 and   *)
(* returned) the tx on offer pays the ceiling - provided the network never  *)
(* refused a tx and the inputs can pay the ceiling at all                   *)
PubCeilByDeadline ==
  (pc \in {"mon", "gone"} /\ g.minct <= 1 /\ g.envok /\ CreateAt(Ceiling).err = "none" /\ ~CeilTrigger)
     => (pub.n > 0 /\ pub.rate >= Ceiling)

(* -- regrouping ---------------------------------------------------------- *)
(* the set starts at the largest rate any of its inputs was already offered *)
RegroupStart == InPub => rq.sopt = SetStart(rq.prevmax)
(* so that the rate offered for an input never decreases across regrouping  *)
(* (up to the ceiling of the new set)                                       *)
RegroupNoDecrease == (InPub /\ ff.live) => ff.cur >= Min(rq.prevmax, ff.end)
PubRegroupNoDecrease == (InPub /\ pub.n > 0) => pub.rate >= Min(rq.prevmax, ff.end)

(* -- the sweeper's request ----------------------------------------------- *)
(* what reaches the publisher (and through MaxFeeRateAllowed the fee         *)
(* function) is the configured maximum, the budget attached to the inputs    *)
(* and their deadline                                                        *)
SweepMaxIsConfigured  == InPub => rq.maxrate = CfgMax(rq)
SweepBudgetIsInputs   == InPub => rq.budget = rq.inbudget + rq.xbudget
SweepDeadlineIsInputs == InPub => rq.deadline = rq.indeadline
(* the property against the configuration and the inputs, not the request   *)
PubRateLeCfgMax     == (InPub /\ pub.n > 0 /\ ~StartTrigger) => pub.rate <= CfgMax(rq)
PubFeeLeInputBudget == (InPub /\ pub.n > 0) => pub.fee <= rq.inbudget + rq.xbudget
(* the aux sweeper's extra output is one of the required outputs             *)
SweepExtraIsRequired == InPub => (rq.xout >= 0 /\ rq.xout <= rq.reqout)
(* the published tx's OWN fee rate - its fee over its own weight, a parent   *)
(* it may pay for is not its size - is no larger than the configured         *)
(* maximum (up to a sub-dust change added to the fee: AbsorbDust)            *)
AbsorbMax(q, change) == IF change = 0 THEN Max(q.dust, 1) - 1 ELSE 0
PubTxRateLeCfgMax == (InPub /\ pub.n > 0 /\ ~StartTrigger) =>
                        pub.fee <= FeeFor(CfgMax(rq), rq.weight) + AbsorbMax(rq, pub.change)

(* the same without the trigger guards: what the deviations break (used to   *)
(* show at model level that RoundCeil = TRUE / ClampStart = FALSE violate    *)
(* the property)                                                             *)
FFBelowEndAll == ff.live => ff.cur <= ff.end
FFMonotoneAll == (ff.live /\ g.prev >= 0) => ff.cur >= g.prev
PubRateLeMaxAll == (InPub /\ pub.n > 0) => pub.rate <= rq.maxrate
PubCeilByDeadlineAll ==
  (pc \in {"mon", "gone"} /\ g.minct <= 1 /\ g.envok /\ CreateAt(Ceiling).err = "none")
     => (pub.n > 0 /\ pub.rate >= Ceiling)

TypeOK == /\ pc \in {"none", "ff", "ready", "create", "check", "incloop", "retry", "publish", "fin", "mon", "gone"}
          /\ mode \in {"initial", "bump"}
          /\ tx.err \in {"none", "noinputs", "nooutput", "budget"}
=============================================================================
