----------------------------- MODULE SweepLifeMC -----------------------------
(* Exhaustive bounded configuration of SweepLife: two inputs with the same  *)
(* deadline (budgets such that the second input's own ceiling lies below,   *)
(* far below, or at the rates the pair reaches), every mempool / publish    *)
(* answer, every block pattern up to one block after the deadline, a        *)
(* third-party spend of any non-empty subset at any block, results with and *)
(* without a retry rate.  Every request is ReqFor(set): what the sweeper    *)
(* has to build for the inputs that are waiting.                            *)
EXTENDS SweepLife
CONSTANTS LBSel,      \* rows of LBudgetTable
          LEsts, LRelay, LMaxVb, LConf0, LH0

LBudgetTable == << <<50000, 13000>>,   \* the second input's own ceiling below the rates the pair reaches
                   <<50000, 2000>>,    \* ... far below: its own budget cannot pay the pair's rates
                   <<5000, 5000>>,     \* equal budgets
                   <<300, 50000>> >>   \* the first input barely pays the relay fee
LBudgets == {LBudgetTable[k] : k \in LBSel}
LUnis == {[n |-> 2, budgets |-> b, wus |-> <<273, 273>>, values |-> <<1000000, 1000000>>, maxvb |-> LMaxVb,
           relay |-> LRelay, est |-> e, deadline |-> LH0 + LConf0] : b \in LBudgets, e \in LEsts}
MaxH == LH0 + LConf0 + 1

LNext ==
  \/ \E u \in LUnis : LOffer(u, LH0)
  \* (a round at the height of the last event only where it is forced / the first one: same-height retry loops are
  \*  left to the generated behaviours)
  \/ \E h \in (IF lpc = "round" \/ pc = "none" THEN {hh} ELSE {}) \cup {hh + 1} :
        h <= MaxH /\ LRound(h, Eligible, ReqFor(Eligible, PhysOf(Eligible)))
  \/ \E h \in {hh, hh + 1} : h <= MaxH /\ \E e \in EndRates :
        \E dl \in DeltaChoices(e, ConfAt(h), rq.sopt, rq.est, rq.relay) : LInitFF(h, e, dl)
  \/ LPub(BeginCreate)
  \/ \E a \in PAns : LPub(Check(a))
  \/ \E a \in PPub : LPub(Pub(a))
  \/ \E r \in RateAt(ff, ff.pos + 1) \cup {ff.cur} : LPub(IncLoop(r)) \/ LPub(IncRetry(r)) \/ LIncSpend(r)
  \/ LDone
  \/ LHandle
  \/ \E h \in {hh + 1, hh + 2} : h <= MaxH /\ \E r \in RateAt(ff, NewPos(ConfAt(h))) \cup {ff.cur} : LBump(h, r)
  \/ \E h \in {hh, hh + 1} : h <= MaxH /\ \E X \in SUBSET cur : LSpend(h, X)

LSpec == LInit /\ [][LNext]_allvars
=============================================================================
