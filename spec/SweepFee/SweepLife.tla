------------------------------- MODULE SweepLife -------------------------------
(***************************************************************************)
(* C18, the RETRY HISTORY of the sweeper: what sweep.UtxoSweeper does with *)
(* the results of the fee bumper, input by input, across blocks.            *)
(*                                                                          *)
(* SweepFee (extended here) is the fee function and the TxPublisher for ONE *)
(* bump request.  The property, however, speaks about the fee rate offered  *)
(* for an INPUT "across successive blocks", and an input outlives its       *)
(* requests: a sweep tx is published, bumped, fails (TxFailed), or a third  *)
(* party spends some of its inputs (TxUnknownSpend); the sweeper then puts  *)
(* the remaining inputs into a new set and a new request, whose fee         *)
(* function starts from what the sweeper remembers for those inputs         *)
(* (Params.StartingFeeRate).  This module is that memory:                   *)
(*                                                                          *)
(*   uni   the inputs offered to the sweeper (all with the same deadline,   *)
(*         no required outputs): per input its budget and the weight the    *)
(*         aggregator's filter prices it at; the sweeper's configuration    *)
(*         and environment (sweeper.maxfeerate in sat/vb, relay fee,        *)
(*         estimator answer, deadline)                                      *)
(*   inp   per input what UtxoSweeper.inputs keeps: st (SweepState: init,   *)
(*         pending = PendingPublish, published, failed = PublishFailed,     *)
(*         gone = Swept / Fatal / removed) and start (params.               *)
(*         StartingFeeRate, 0: none); plus two ghosts: lastr, the fee rate  *)
(*         of the last tx published for this input, and forgot (below)      *)
(*   cur, curp   the inputs of the request the publisher works on and the   *)
(*         largest starting rate they carried when it was built             *)
(*   lpc   where the sweeper is: "idle", "handle" (a BumpResult waits in    *)
(*         bumpRespChan), "spend" (the publisher has found a third-party    *)
(*         spend), "round" (handleBumpEventTxUnknownSpend re-sweeps at      *)
(*         once)                                                            *)
(*   hh    the current block height (never decreases)                       *)
(*                                                                          *)
(* One action per critical section of sweeper.go:                           *)
(*   LRound   the collector's round: updateSweeperInputs + sweepPending-    *)
(*            Inputs (aggregator filter + cluster, sweep(): the request is  *)
(*            SweepReq(config, set), markInputsPendingPublish)              *)
(*   LHandle  handleBumpEvent: TxPublished / TxReplaced                     *)
(*            (markInputsPublished), TxFailed (markInputsPublishFailed:     *)
(*            the rate the bumper hands back becomes the inputs' starting   *)
(*            rate), TxFatal (markInputsFatal), TxUnknownSpend (spent       *)
(*            inputs are gone, the others keep the handed-back rate and are *)
(*            re-swept in the same call)                                    *)
(*   LSpend / LIncSpend   TxPublisher.processRecords finds inputs of the    *)
(*            monitored tx spent by a tx it does not know ->                *)
(*            handleUnknownSpent -> calculateRetryFeeRate (one Increment)   *)
(* and the SweepFee actions of the publisher in between.                    *)
(*                                                                          *)
(* THE PROPERTY here: the fee rate offered for an input never decreases     *)
(* across blocks - whatever happened to the txs it was part of - except     *)
(* where the ceiling of its new set forces it (LifeNoDecrease); a request   *)
(* starts at the largest rate its inputs carry (LifeReqIsSet with           *)
(* RegroupStart of SweepFee); and an input that is still to be swept and    *)
(* whose own budget pays the relay fee is part of every round               *)
(* (LifeNotStranded) - otherwise it is never offered again and cannot       *)
(* reach its ceiling by the deadline.                                       *)
(*                                                                          *)
(* DEVIATIONS of the code, as constants (TRUE = what the code does; the     *)
(* committed cfg files carry the REPAIRED value FALSE; which one the code   *)
(* follows is decided in every run by the directed replay of                *)
(* spec/SweepFee/directed/l_*.ndjson and a deviating value is reported as   *)
(* a violation: findings F25, F26):                                         *)
(*   ForgetOnZero: a TxFailed WITHOUT a retry rate (FeeRate 0: zero fee     *)
(*       rate delta, tx without output, aux error) makes                    *)
(*       markInputsPublishFailed store StartingFeeRate = Some(0): the rate  *)
(*       already reached is forgotten and the next request starts from the  *)
(*       estimator again.  Repaired: a result without a rate leaves the     *)
(*       inputs' starting rate as it is.                                    *)
(*   StrandFilter: BudgetAggregator.filterInputs skips an input whose OWN   *)
(*       budget cannot pay its starting rate over its own weight - a rate   *)
(*       that was computed for the larger set it was part of; the input     *)
(*       stays PublishFailed for ever.  Repaired: the set decides (the fee  *)
(*       function caps the start at the set's ceiling).                     *)
(* With a deviating value the invariants are stated outside the exact       *)
(* trigger (inp[i].forgot / StrandTrigger(i)).                              *)
(***************************************************************************)
EXTENDS SweepFee

CONSTANTS ForgetOnZero, StrandFilter

VARIABLES inp, uni, cur, curp, lpc, hh, spent
lvars == <<inp, uni, cur, curp, lpc, hh, spent>>
allvars == <<vars, lvars>>

NoUni == [n |-> 0, budgets |-> <<>>, wus |-> <<>>, values |-> <<>>, maxvb |-> 0, relay |-> 0, est |-> 0,
          deadline |-> 0]

LInit == Init /\ inp = <<>> /\ uni = NoUni /\ cur = {} /\ curp = 0 /\ lpc = "start" /\ hh = 0 /\ spent = {}

RECURSIVE SumSet(_, _)
SumSet(f, S) == IF S = {} THEN 0 ELSE LET x == CHOOSE y \in S : TRUE IN f[x] + SumSet(f, S \ {x})
MaxStart(S) == IF S = {} THEN 0 ELSE CHOOSE m \in {inp[i].start : i \in S} : \A j \in S : inp[j].start <= m
Ins == 1..uni.n

-----------------------------------------------------------------------------
(* the inputs are offered (SweepInput -> handleNewInput: state Init)        *)
LOffer(u, h0) ==
  /\ lpc = "start"
  /\ uni' = u
  /\ inp' = [i \in 1..u.n |-> [st |-> "init", start |-> 0, lastr |-> 0, forgot |-> FALSE]]
  /\ lpc' = "idle" /\ hh' = h0
  /\ UNCHANGED <<vars, cur, curp, spent>>

(* BudgetAggregator.filterInputs *)
Waiting(i)  == inp[i].st \in {"init", "failed"}
Payable(i)  == FeeFor(uni.relay, uni.wus[i]) <= uni.budgets[i]
StrandTrigger(i) == StrandFilter /\ FeeFor(inp[i].start, uni.wus[i]) > uni.budgets[i]
Eligible  == {i \in Ins : Waiting(i) /\ Payable(i) /\ ~StrandTrigger(i)}

(* the weight / input sum / change dust limit of the sweep tx of a set: in a *)
(* trace the measured ones, in the model p2wkh inputs and a p2wkh change    *)
PhysOf(S) == [weight |-> 166 + SumSet(uni.wus, S), totalin |-> SumSet(uni.values, S), dust |-> 294]
SetOf(S, ph) == [weight |-> ph.weight, totalin |-> ph.totalin, reqout |-> 0, dust |-> ph.dust,
                 inbudget |-> SumSet(uni.budgets, S), indeadline |-> uni.deadline, prevmax |-> MaxStart(S),
                 pweight |-> 0, pfee |-> 0, xout |-> 0, xbudget |-> 0]
ReqFor(S, ph) == SweepReq([maxvb |-> uni.maxvb, relay |-> uni.relay, est |-> uni.est], SetOf(S, ph))

(* one round of the collector at height h: every waiting input that passes   *)
(* the filter is put into ONE set (same deadline) and the request p is       *)
(* handed to the publisher; S = {}: nothing to sweep.  p is ReqFor(S, .) in  *)
(* the model; in a trace what the code built, judged by LifeReqIsSet and     *)
(* the Sweep* / RegroupStart invariants of SweepFee.                         *)
LRound(h, S, p) ==
  /\ lpc \in {"idle", "round"}
  /\ pc \in {"none", "gone"}
  /\ IF lpc = "round" THEN h = hh ELSE h >= hh   \* (the publisher may have handled this block before the sweeper)
  /\ S = Eligible
  /\ IF S = {} THEN UNCHANGED <<vars, inp, cur, curp>>
     ELSE /\ Install(p)
          /\ inp' = [i \in Ins |-> IF i \in S THEN [inp[i] EXCEPT !.st = "pending"] ELSE inp[i]]
          /\ cur' = S /\ curp' = MaxStart(S)
  /\ hh' = h /\ lpc' = "idle"
  /\ UNCHANGED <<uni, spent>>

(* the publisher's steps (SweepFee), the sweeper waits *)
LPub(A) == lpc = "idle" /\ A /\ UNCHANGED lvars
(* the initial broadcast happens at the block of the round or the next one *)
LInitFF(h, e, dl) ==
  /\ lpc = "idle" /\ h \in {hh, hh + 1}
  /\ InitFF(h, e, dl)
  /\ hh' = h /\ UNCHANGED <<inp, uni, cur, curp, lpc, spent>>
(* a new block for the monitored tx *)
LBump(h, r) ==
  /\ lpc = "idle" /\ h > hh
  /\ Bump(h, r)
  /\ hh' = h /\ UNCHANGED <<inp, uni, cur, curp, lpc, spent>>
(* the handler returns; a result is sent to the sweeper *)
LDone ==
  /\ lpc = "idle"
  /\ Done
  /\ lpc' = IF res.event # "none" THEN "handle" ELSE "idle"
  /\ UNCHANGED <<inp, uni, cur, curp, hh, spent>>

(* at a block the publisher finds the inputs X of the monitored tx spent by *)
(* a tx it does not know *)
LSpend(h, X) ==
  /\ lpc = "idle" /\ pc = "mon" /\ h >= hh
  /\ X # {} /\ X \subseteq cur
  /\ spent' = X /\ lpc' = "spend" /\ hh' = h
  /\ UNCHANGED <<vars, inp, uni, cur, curp>>
LIncSpend(r) ==
  /\ lpc = "spend"
  /\ UnknownSpend(r)
  /\ lpc' = "idle"
  /\ UNCHANGED <<inp, uni, cur, curp, hh, spent>>

(* markInputsPublishFailed: the starting rate after a result that hands back *)
(* the rate `rate' (0: none)                                                 *)
NewStart(old, rate) == IF rate > 0 \/ ForgetOnZero THEN rate ELSE old
Forgets(i, rate) == ForgetOnZero /\ rate = 0 /\ (inp[i].start > 0 \/ inp[i].lastr > 0)

(* handleBumpEvent *)
LHandle ==
  /\ lpc = "handle"
  /\ LET ev == res.event
         failed(i) == [inp[i] EXCEPT !.st = "failed", !.start = NewStart(@, res.rate),
                                     !.forgot = @ \/ Forgets(i, res.rate)]
         upd(i) == CASE ev \in {"Published", "Replaced"} ->
                          [inp[i] EXCEPT !.st = "published", !.lastr = res.rate, !.forgot = FALSE]
                     [] ev = "Failed" -> failed(i)
                     [] ev = "Fatal" -> [inp[i] EXCEPT !.st = "gone"]
                     [] ev = "UnknownSpend" -> IF i \in spent THEN [inp[i] EXCEPT !.st = "gone"] ELSE failed(i)
                     [] OTHER -> inp[i]
     IN  /\ inp' = [i \in Ins |-> IF i \in cur THEN upd(i) ELSE inp[i]]
         /\ lpc' = IF ev = "UnknownSpend" /\ cur \ spent # {} THEN "round" ELSE "idle"
  /\ spent' = {}
  /\ UNCHANGED <<vars, uni, cur, curp, hh>>

-----------------------------------------------------------------------------
(* THE PROPERTY                                                             *)

(* the fee rate offered for an input never decreases across its requests,   *)
(* up to the ceiling of the set it is now part of                            *)
LifeNoDecrease ==
  (InPub /\ pub.n > 0) => \A i \in cur : inp[i].forgot \/ pub.rate >= Min(inp[i].lastr, Ceiling)
(* ... and so does the rate the function of a new request starts at          *)
LifeStartNoDecrease ==
  (InPub /\ ff.live) => \A i \in cur : inp[i].forgot \/ ff.cur >= Min(inp[i].lastr, ff.end)
(* the request is the sweeper's request for exactly these inputs: their      *)
(* budgets, their deadline, the largest rate they carry; under the sweeper's *)
(* configuration and environment                                             *)
LifeReqIsSet == (InPub /\ lpc # "start") =>
  /\ rq.inbudget = SumSet(uni.budgets, cur)
  /\ rq.prevmax = curp
  /\ rq.indeadline = uni.deadline
  /\ rq.cfgvb = uni.maxvb /\ rq.relay = uni.relay /\ rq.est = uni.est
  /\ rq.reqout = 0 /\ rq.xout = 0 /\ rq.xbudget = 0
(* no waiting input that can pay the relay fee is left out of a round       *)
LifeNotStranded == \A i \in DOMAIN inp :
  (lpc = "idle" /\ pc \in {"ready"} /\ Waiting(i) /\ Payable(i)) => StrandTrigger(i)
(* the unguarded ones: what the deviations break *)
LifeNoDecreaseAll == (InPub /\ pub.n > 0) => \A i \in cur : pub.rate >= Min(inp[i].lastr, Ceiling)
LifeNotStrandedAll == \A i \in DOMAIN inp : ~(lpc = "idle" /\ pc \in {"ready"} /\ Waiting(i) /\ Payable(i))

LTypeOK == /\ lpc \in {"start", "idle", "handle", "spend", "round"}
           /\ \A i \in DOMAIN inp : inp[i].st \in {"init", "pending", "published", "failed", "gone"}
           /\ cur \subseteq DOMAIN inp
=============================================================================
