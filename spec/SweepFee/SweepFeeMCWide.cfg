SPECIFICATION Spec
CONSTANTS
  RoundCeil = FALSE
  ClampStart = TRUE
  PNew <- MCNew
  PReq <- Empty
  PConf <- MCConf
  PHeights <- Empty
  PAns = {"ok"}
  PPub = {"ok"}
  Relay = 253
  Ends = {200, 253, 254, 760, 1263, 100253, 1000000}
  Sopts = {0, 253, 5000}
  Ests = {0, 253, 300}
  Cts = {1007, 1008, 1009, 1011, 2016}
  ConfSet = {0, 1, 2, 3, 500, 1006, 1007, 1008, 1009, 1010, 1011, 1012, 2015, 2016, 2017}
  Weights = {}
  Budgets = {}
  MaxVbs = {}
  InSets = {}
  Conf0 = 0
  H0 = 0
INVARIANTS TypeOK FFMonotone FFBelowEnd FFAboveFloor FFCeilAtWidth FFCeilByDeadline FFShape RegroupStart RegroupNoDecrease PubRegroupNoDecrease
CHECK_DEADLOCK FALSE
