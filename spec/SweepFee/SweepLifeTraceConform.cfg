SPECIFICATION TSpec
CONSTANTS
  RoundCeil = FALSE
  ClampStart = TRUE
  ForgetOnZero = FALSE
  StrandFilter = FALSE
  PNew = {}
  PReq = {}
  PConf = {}
  PHeights = {}
  PAns = {}
  PPub = {}
INVARIANTS ConformLife ConformHandle ConformFF ConformCreate ConformTx ConformDone LifeReqIsSet
  SweepMaxIsConfigured SweepBudgetIsInputs SweepDeadlineIsInputs RegroupStart
  NextEndIsCeilingOfBuiltTx NextStartCappedAtEnd
CHECK_DEADLOCK TRUE
