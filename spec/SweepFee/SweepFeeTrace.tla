---------------------------- MODULE SweepFeeTrace ----------------------------
(* Trace validation: every recorded call of the real LinearFeeFunction /     *)
(* TxPublisher must be the corresponding SweepFee action, and what the code  *)
(* answered (fee function fields after the call, error class, every tx       *)
(* handed to the wallet, the BumpResult) must equal the model's state after  *)
(* that action.  Values the code computes through float64 are passed to the  *)
(* action as the recorded value and must lie in the set the spec allows      *)
(* (exact nearest integer; both neighbours only at an exact .5 tie).         *)
(* The property's invariants are checked on the model state the trace drives *)
(* and, where they speak about the transaction itself (inputs spent, outputs *)
(* above dust, the fee it pays = inputs - outputs over its own weight), on   *)
(* the recorded tx.                                                          *)
(* A Req / Retry line is what the real UtxoSweeper.sweep built and handed to *)
(* the publisher (maxrate, budget, deadline, sopt of the BumpRequest) next   *)
(* to what it was built from: the sweeper's configuration (cfgvb, sat/vb)    *)
(* and the input set (per-input budgets, deadlines, rates offered before,    *)
(* unconfirmed-parent infos as [weight, fee]).  The Sweep* invariants and    *)
(* RegroupStart compare the two (they are part of SweepFeeTraceConform.cfg   *)
(* too: a request that is not SweepReq(config, set) conforms to no model).   *)
(* With an aux sweeper (custom channels) the line also carries xout, the     *)
(* value of the extra output the aux sweeper adds to every tx of the request *)
(* (reqout is the sum of the inputs' own required outputs), and xbudget, the *)
(* set's extra budget; `weight' is the weight of the tx as it is built, the  *)
(* extra output included.                                                    *)
EXTENDS SweepFee, Json
VARIABLE l

Trace == ndJsonDeserialize("trace.ndjson")
T     == Trace[l]
Last  == Trace[l - 1]

TInit == Init /\ l = 1
Is(a) == l <= Len(Trace) /\ Trace[l].a = a /\ l' = l + 1

Reset == /\ Is("Reset")
         /\ ff' = NoFF /\ rq' = NoRq /\ pc' = "none" /\ mode' = "initial" /\ tx' = NoTx
         /\ pub' = NoPub /\ res' = NoRes /\ last' = NoLast /\ g' = G0

(* the largest per-input starting rate of the set (0: none) *)
SeqMax(q) == IF Len(q) = 0 THEN 0 ELSE CHOOSE m \in {q[i] : i \in 1..Len(q)} : \A j \in 1..Len(q) : q[j] <= m

SeqSum(q) == LET F[i \in 0..Len(q)] == IF i = 0 THEN 0 ELSE F[i - 1] + q[i] IN F[Len(q)]
(* the deadline attached to the inputs (-1: none / not the same for all) *)
SeqSame(q) == IF Len(q) > 0 /\ \A i \in 1..Len(q) : q[i] = q[1] THEN q[1] ELSE -1
Col(q, k) == [i \in 1..Len(q) |-> q[i][k]]

ReqOf(t) == [budget |-> t.budget, weight |-> t.weight, maxrate |-> t.maxrate, relay |-> t.relay,
             totalin |-> t.totalin, reqout |-> t.reqout + t.xout, dust |-> t.dust, deadline |-> t.deadline,
             sopt |-> t.sopt, est |-> t.est, prevmax |-> SeqMax(t.prevs),
             cfgvb |-> t.cfgvb, inbudget |-> SeqSum(t.budgets), indeadline |-> SeqSame(t.deadlines),
             pweight |-> SeqSum(Col(t.parents, 1)), pfee |-> SeqSum(Col(t.parents, 2)),
             xout |-> t.xout, xbudget |-> t.xbudget]

TNext ==
  \/ Reset
  \/ Is("New")   /\ New([maxrate |-> T.maxrate, ct |-> T.ct, sopt |-> T.sopt, est |-> T.est, relay |-> T.relay], T.delta)
  \/ Is("Inc")   /\ (IncFF(T.cur) \/ IncLoop(T.cur) \/ IncRetry(T.cur))
  \/ Is("Bump")  /\ \/ BumpFF(T.ct, T.cur)
                    \/ T.ct = ConfAt(T.height) /\ Bump(T.height, T.cur)
  \/ Is("Req")   /\ Request(ReqOf(T))
  \/ Is("Retry") /\ Regroup(ReqOf(T))
  \/ Is("Init")  /\ T.ct = ConfAt(T.height) /\ InitFF(T.height, T.maxallowed, T.delta)
  \/ Is("Create") /\ BeginCreate
  \/ Is("Check") /\ Check(T.ans)
  \/ Is("Pub")   /\ Pub(T.ans)
  \/ Is("Done")  /\ Done
  \/ (l = Len(Trace) + 1 /\ UNCHANGED <<vars, l>>)

TSpec == TInit /\ [][TNext]_<<vars, l>>

-----------------------------------------------------------------------------
Live == l > 1 /\ Last.a # "Reset"
B(x) == IF x THEN 1 ELSE 0

(* the fee function after every call on it *)
ConformFF == (Live /\ Last.a \in {"New", "Init", "Inc", "Bump"}) =>
  /\ Last.live = B(ff.live)
  /\ Last.err = last.err
  /\ Last.inc = B(last.inc)
  /\ ff.live => /\ Last.start = ff.start /\ Last.end = ff.end /\ Last.width = ff.width
                /\ Last.pos = ff.pos /\ Last.cur = ff.cur /\ Last.delta = ff.delta

(* the rate a tx creation attempt reads is the current rate *)
ConformCreate == (Live /\ Last.a = "Create") => Last.rate = ff.cur

(* the tx handed to the wallet: fee (inputs - outputs), change output *)
ConformTx == (Live /\ Last.a \in {"Check", "Pub"}) =>
  /\ tx.err = "none"
  /\ Last.rate = tx.rate /\ Last.fee = tx.fee /\ Last.change = tx.change
  /\ Last.nin = Len(Last.ins)

(* the BumpResult *)
ConformDone == (Live /\ Last.a = "Done") =>
  /\ Last.event = res.event
  /\ Last.err = res.err
  /\ Last.rate = res.rate

(* C18 on the recorded transaction: all requested inputs are spent (each     *)
(* exactly once, nothing else), no output is below the dust limit of its     *)
(* script, there is an output, the fee fits the budget                       *)
TxSpendsAll == (Live /\ Last.a \in {"Check", "Pub"}) =>
  /\ \A i \in 1..Last.nin : \E k \in 1..Len(Last.ins) : Last.ins[k] = i
  /\ \A k \in 1..Len(Last.ins) : Last.ins[k] \in 1..Last.nin
  /\ \A j, k \in 1..Len(Last.ins) : j # k => Last.ins[j] # Last.ins[k]
TxNoDust == (Live /\ Last.a \in {"Check", "Pub"}) =>
  /\ Last.nout >= 1
  /\ \A k \in 1..Len(Last.outs) : Last.outs[k][1] >= Last.outs[k][2]
TxWithinBudget == (Live /\ Last.a \in {"Check", "Pub"}) =>
  /\ Last.fee <= rq.budget
  /\ Last.fee <= rq.inbudget + rq.xbudget
  /\ Last.rate <= rq.maxrate \/ StartTrigger
(* ... and on the transaction as it is handed to the wallet - fee = inputs - *)
(* outputs, over the weight of the sweep tx itself, whatever the inputs      *)
(* carry (unconfirmed-parent info, required outputs, wallet top-ups):        *)
(* its fee rate is no larger than the CONFIGURED maximum ...                 *)
TxRateLeCfgMax == (Live /\ Last.a \in {"Check", "Pub"}) =>
  \/ StartTrigger
  \/ Last.fee <= FeeFor(CfgMax(rq), rq.weight) + AbsorbMax(rq, Last.change)
(* ... and it pays the rate on offer (the fee function's), no more: the      *)
(* statements about the offered rate are statements about this tx            *)
TxPaysOfferedRate == (Live /\ Last.a \in {"Check", "Pub"} /\ ff.live) =>
  /\ Last.fee >= FeeFor(ff.cur, rq.weight)
  /\ Last.fee <= FeeFor(ff.cur, rq.weight) + AbsorbMax(rq, Last.change)
(* the property on the values of the NEXT line, before the model takes the   *)
(* step (a line the model cannot follow at all is a deadlock; these name the *)
(* clause): the ending rate a fresh fee function gets is the ceiling of the  *)
(* request - the lesser of the budget over the size of the tx that is BUILT  *)
(* (all its outputs) and the maximum - and no function starts above its      *)
(* ending rate, whatever the source of the starting rate                     *)
NextEndIsCeilingOfBuiltTx ==
  (l <= Len(Trace) /\ Trace[l].a = "Init" /\ pc = "ready") => Trace[l].maxallowed \in EndRates
NextStartCappedAtEnd ==
  (l <= Len(Trace) /\ Trace[l].a \in {"New", "Init"} /\ Trace[l].live = 1 /\ ClampStart) => Trace[l].start <= Trace[l].end
=============================================================================
