SPECIFICATION GSpec
CONSTANTS
  RoundCeil = TRUE
  ClampStart = FALSE
  PNew = {}
  PReq = {}
  PConf = {}
  PHeights = {}
  PAns = {}
  PPub = {}
  MaxLen = 30
  Main = TRUE
  Mode = "both"
INVARIANTS Dump
CHECK_DEADLOCK FALSE
