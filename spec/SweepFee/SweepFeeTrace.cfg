SPECIFICATION TSpec
CONSTANTS
  RoundCeil = FALSE
  ClampStart = TRUE
  PNew = {}
  PReq = {}
  PConf = {}
  PHeights = {}
  PAns = {}
  PPub = {}
INVARIANTS ConformFF ConformCreate ConformTx ConformDone TxSpendsAll TxNoDust TxWithinBudget
  FFMonotone FFBelowEnd FFAboveFloor FFCeilAtWidth FFCeilByDeadline FFShape
  PubFeeLeBudget PubRateLeMax PubRateLeCeil PubNoDust PubSomeOutput PubMonotone PubAboveFloor PubFeeExact PubCeilByDeadline RegroupStart RegroupNoDecrease PubRegroupNoDecrease
CHECK_DEADLOCK TRUE
