SPECIFICATION TSpec
CONSTANTS
  RoundCeil = FALSE
  ClampStart = TRUE
  PNew = {}
  PReq = {}
  PConf = {}
  PHeights = {}
  PAns = {}
  PPub = {}
INVARIANTS SweepMaxIsConfigured SweepBudgetIsInputs SweepDeadlineIsInputs SweepExtraIsRequired TxSpendsAll TxNoDust TxWithinBudget TxRateLeCfgMax TxPaysOfferedRate
  ConformFF ConformCreate ConformTx ConformDone
  FFMonotone FFBelowEnd FFAboveFloor FFCeilAtWidth FFCeilByDeadline FFShape
  PubFeeLeBudget PubRateLeMax PubRateLeCeil PubNoDust PubSomeOutput PubMonotone PubAboveFloor PubFeeExact PubCeilByDeadline RegroupStart RegroupNoDecrease PubRegroupNoDecrease
  PubRateLeCfgMax PubFeeLeInputBudget PubTxRateLeCfgMax
  NextEndIsCeilingOfBuiltTx NextStartCappedAtEnd
CHECK_DEADLOCK TRUE
