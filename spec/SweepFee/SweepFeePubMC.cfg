SPECIFICATION Spec
CONSTANTS
  RoundCeil = FALSE
  ClampStart = TRUE
  PNew <- Empty
  PReq <- MCReq
  PConf <- Empty
  PHeights <- MCHeights
  PAns = {"ok", "lowfee", "minfee", "reject"}
  PPub = {"ok", "fail"}
  Relay = 253
  Ends = {}
  Sopts = {0, 300, 600}
  Ests = {0, 100, 260, 9000}
  Cts = {}
  ConfSet = {}
  Weights = {600, 4000}
  Budgets = {1000, 2000, 2001, 2002, 2003}
  MaxVbs = {2, 400}
  InSets = {1, 2, 3, 4, 6, 7, 8, 9}
  Conf0 = 3
  H0 = 100
INVARIANTS TypeOK FFMonotone FFBelowEnd FFAboveFloor FFCeilAtWidth FFCeilByDeadline FFShape
  PubFeeLeBudget PubRateLeMax PubRateLeCeil PubNoDust PubSomeOutput PubMonotone PubAboveFloor PubFeeExact PubCeilByDeadline RegroupStart RegroupNoDecrease PubRegroupNoDecrease
  SweepMaxIsConfigured SweepBudgetIsInputs SweepDeadlineIsInputs SweepExtraIsRequired PubRateLeCfgMax PubFeeLeInputBudget PubTxRateLeCfgMax
CHECK_DEADLOCK FALSE
