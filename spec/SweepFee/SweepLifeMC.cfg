SPECIFICATION LSpec
CONSTANTS
  RoundCeil = FALSE
  ClampStart = TRUE
  ForgetOnZero = FALSE
  StrandFilter = FALSE
  PNew = {}
  PReq = {}
  PConf = {}
  PHeights = {}
  PAns = {"ok", "lowfee", "reject"}
  PPub = {"ok", "fail"}
  LBSel = {1, 2, 3}
  LEsts = {1000}
  LRelay = 253
  LMaxVb = 1000
  LConf0 = 4
  LH0 = 100
INVARIANTS LTypeOK TypeOK LifeNoDecrease LifeStartNoDecrease LifeReqIsSet LifeNotStranded
  FFMonotone FFBelowEnd FFAboveFloor FFCeilAtWidth FFCeilByDeadline FFShape
  PubFeeLeBudget PubRateLeMax PubRateLeCeil PubNoDust PubSomeOutput PubMonotone PubAboveFloor PubFeeExact PubCeilByDeadline RegroupStart RegroupNoDecrease PubRegroupNoDecrease
  SweepMaxIsConfigured SweepBudgetIsInputs SweepDeadlineIsInputs SweepExtraIsRequired PubRateLeCfgMax PubFeeLeInputBudget PubTxRateLeCfgMax
CHECK_DEADLOCK FALSE
