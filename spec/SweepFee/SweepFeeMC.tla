----------------------------- MODULE SweepFeeMC -----------------------------
(* Exhaustive bounded configurations of SweepFee.                           *)
(*  - fee function grids (SweepFeeMC.cfg, SweepFeeMCWide.cfg): every        *)
(*    (start, end, conf target) of a grid that contains the rounding cases  *)
(*    (width not dividing end-start, deltas below 1 sat/kw per block, exact *)
(*    .5 ties), every estimator answer, and ALL walks of Increment /        *)
(*    IncreaseFeeRate(ct) with ct skipping, repeating and increasing.       *)
(*  - publisher grids (SweepFeePubMC.cfg): budgets around the fee           *)
(*    thresholds of two weights (below / above the 2000 wu where            *)
(*    budget-rate rounding starts to matter), the configured maximum (in    *)
(*    sat/vb, turned into the request's MaxFeeRate by SweepReq) below/above *)
(*    the budget rate, change above / below dust with and without a         *)
(*    required output, an input with unconfirmed-parent info (parent paying *)
(*    nothing / a rate inside the ramp), an input of a custom channel (aux  *)
(*    extra output + extra budget), every mempool / publish answer, every   *)
(*    block pattern, a third-party spend / the confirmation of the          *)
(*    monitored tx at any block.  Every request is SweepReq(config, input   *)
(*    set): what UtxoSweeper.sweep has to build.                            *)
(*  - estimator / deadline domain: the grids contain an ending rate BELOW   *)
(*    the relay fee (Ends 200 < Relay 253; MaxVbs 1 = 250 sat/kw), conf     *)
(*    targets on both sides of 1008 (SweepFeeMCWide.cfg: 1007, 1008, 1009,  *)
(*    1011, 2016) and the publisher with a far deadline                     *)
(*    (SweepFeePubMCFar.cfg: deadline 1009 blocks away, heights at both     *)
(*    ends - MCFarHeights; configured maxima 1 / 2 / 400 sat/vb; the        *)
(*    network accepts every tx there: with a width of 1008 every refusal    *)
(*    would add one retry per position - 7.5 M states and growing were      *)
(*    measured - and the retry logic is covered by SweepFeePubMC.cfg).      *)
EXTENDS SweepFee

CONSTANTS Relay, Ends, Sopts, Ests, Cts, ConfSet, \* fee function grid (ConfSet = {}: all conf targets 0..max+1)
          Weights, Budgets, MaxVbs, InSets, Conf0, H0

\* a cfg file cannot hold negative numbers: 0 in Sopts / Ests stands for -1 (no explicit start / estimator error)
Dec(S) == {IF x = 0 THEN -1 ELSE x : x \in S}

MCNew == {[maxrate |-> e, ct |-> c, sopt |-> s, est |-> x, relay |-> Relay] :
            e \in Ends, c \in Cts, s \in Dec(Sopts), x \in Dec(Ests)}

\* input sets as <<totalin, reqout, dust of the change script, parent weight, parent fee, aux extra output, aux extra
\* budget>>; InSets selects rows
InTable == << <<100000, 0, 294, 0, 0, 0, 0>>,       \* plenty of change
              <<2200, 0, 294, 0, 0, 0, 0>>,         \* change falls below dust while the rate rises: tx without output
              <<12200, 10000, 294, 0, 0, 0, 0>>,    \* required output + change that falls below dust: absorbed into the fee
              <<11000, 10000, 294, 0, 0, 0, 0>>,    \* required output, inputs cannot pay the higher rates
              <<50000, 49000, 330, 0, 0, 0, 0>>,    \* required output nearly everything (wallet top-up too small)
              <<100330, 0, 294, 724, 0, 0, 0>>,     \* anchor + wallet input, unconfirmed parent that pays nothing
              <<100330, 0, 294, 1116, 335, 0, 0>>,  \* ... parent at 300 sat/kw: above the first rates, below the later ones
              <<100000, 0, 294, 0, 0, 1000, 3>>,    \* custom-channel input: aux extra output of 1000 sat, extra budget 3
              <<2600, 0, 294, 0, 0, 330, 0>> >>     \* ... whose change falls below dust: absorbed, the extra output remains
MCReq == {SweepReq([maxvb |-> m, relay |-> Relay, est |-> x],
                   [weight |-> w, totalin |-> i[1], reqout |-> i[2], dust |-> i[3], inbudget |-> b,
                    indeadline |-> H0 + Conf0, prevmax |-> IF s > 0 THEN s ELSE 0,
                    pweight |-> i[4], pfee |-> i[5], xout |-> i[6], xbudget |-> i[7]]) :
            b \in Budgets, w \in Weights, m \in MaxVbs, i \in {InTable[k] : k \in InSets}, s \in Dec(Sopts), x \in Dec(Ests)}

MCHeights == H0..(H0 + Conf0 + 1)
\* a far deadline: the first blocks and the last ones
MCFarHeights == {H0, H0 + 1, H0 + Conf0 - 2, H0 + Conf0 - 1, H0 + Conf0, H0 + Conf0 + 1}
MCConf == IF ConfSet = {} THEN 0..((CHOOSE m \in Cts : \A c \in Cts : c <= m) + 1) ELSE ConfSet
Empty == {}
=============================================================================
