SPECIFICATION TSpec
CONSTANTS
  RoundCeil = FALSE
  ClampStart = TRUE
  ForgetOnZero = FALSE
  StrandFilter = FALSE
  PNew = {}
  PReq = {}
  PConf = {}
  PHeights = {}
  PAns = {}
  PPub = {}
INVARIANTS ConformLife ConformHandle ConformFF ConformCreate ConformTx ConformDone TxSpendsAll TxWithinBudget TxPaysOfferedRate
  LTypeOK LifeNoDecrease LifeStartNoDecrease LifeReqIsSet LifeNotStranded
  SweepMaxIsConfigured SweepBudgetIsInputs SweepDeadlineIsInputs RegroupStart
  FFMonotone FFBelowEnd FFAboveFloor FFCeilAtWidth FFCeilByDeadline FFShape
  PubFeeLeBudget PubRateLeMax PubRateLeCeil PubNoDust PubSomeOutput PubMonotone PubAboveFloor PubFeeExact PubCeilByDeadline
  PubRateLeCfgMax PubFeeLeInputBudget PubTxRateLeCfgMax
  NextEndIsCeilingOfBuiltTx NextStartCappedAtEnd
CHECK_DEADLOCK TRUE
