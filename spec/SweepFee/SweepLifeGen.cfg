SPECIFICATION GSpec
CONSTANTS
  RoundCeil = FALSE
  ClampStart = TRUE
  ForgetOnZero = TRUE
  StrandFilter = TRUE
  PNew = {}
  PReq = {}
  PConf = {}
  PHeights = {}
  PAns = {}
  PPub = {}
  MaxLen = 60
INVARIANTS Dump
CHECK_DEADLOCK FALSE
