----------------------------- MODULE SweepLifeGen -----------------------------
(* Behaviour generator for SweepLife: the model of the code (deviations as   *)
(* the cfg says) + the history of the environment's choices, one NDJSON      *)
(* schedule per simulated behaviour: the inputs offered (2 or 3, budgets     *)
(* from a table that contains pairs whose smaller ceiling lies below / far   *)
(* below the rates the set reaches), the heights of rounds, initial          *)
(* broadcasts and blocks (with skipped heights), mempool / publish answers,  *)
(* at most one third-party spend of a non-empty subset.  The executor        *)
(* replays the environment on a real UtxoSweeper + TxPublisher; lines of the *)
(* code's own steps (Create, Inc, Handle, Done) are in the schedule for      *)
(* reading only.                                                             *)
EXTENDS SweepLife, Json
CONSTANTS MaxLen
VARIABLES hist, nsp

gvars == <<allvars, hist, nsp>>
Rec(e) == hist' = Append(hist, e)
N == Len(hist)
Pick(S, k) == RandomElement(IF k >= 0 THEN S ELSE {})
H0 == 1000

GBudgets == { <<50000, 13000>>, <<50000, 2000>>, <<5000, 5000>>, <<300, 50000>>, <<20000, 19000>>,
              <<50000, 13000, 700>>, <<9000, 9000, 60000>>, <<40000, 1500, 30000>> }
Vals(n) == [i \in 1..n |-> 1000000]
Wus(n)  == [i \in 1..n |-> 273]

GInit == LInit /\ hist = <<>> /\ nsp = 0
Keep == UNCHANGED nsp
MaxH == uni.deadline + 1

GNext ==
  /\ Len(hist) < MaxLen
  /\ \/ /\ lpc = "start"
        /\ \E b \in {Pick(GBudgets, N)} : \E e \in {Pick({-1, 300, 1000, 1000, 30000}, N)} :
           \E c0 \in {Pick({1, 2, 3, 4, 4, 6, 10}, N)} : \E mv \in {Pick({1000, 1000, 1000, 40}, N)} :
           \E r \in {Pick({253, 253, 1000}, N)} :
           LET u == [n |-> Len(b), budgets |-> b, wus |-> Wus(Len(b)), values |-> Vals(Len(b)), maxvb |-> mv,
                     relay |-> r, est |-> e, deadline |-> H0 + c0] IN
           LOffer(u, H0) /\ Rec([a |-> "Offer", budgets |-> b, values |-> u.values, maxvb |-> mv, relay |-> r,
                                 est |-> e, deadline |-> u.deadline, height |-> H0]) /\ Keep
     \/ \E h \in {hh, hh + 1, hh + 2} : h <= MaxH /\ LRound(h, Eligible, ReqFor(Eligible, PhysOf(Eligible)))
           /\ Rec([a |-> "Round", height |-> h]) /\ Keep
     \/ \E h \in {hh, hh + 1} : h <= MaxH /\ \E e \in EndRates :
          \E dl \in DeltaChoices(e, ConfAt(h), rq.sopt, rq.est, rq.relay) :
             LInitFF(h, e, dl) /\ Rec([a |-> "Init", height |-> h]) /\ Keep
     \/ LPub(BeginCreate) /\ Rec([a |-> "Create"]) /\ Keep
     \/ \E a \in {Pick({"ok", "ok", "ok", "ok", "lowfee", "reject"}, N)} : LPub(Check(a)) /\ Rec([a |-> "Check", ans |-> a]) /\ Keep
     \/ \E a \in {Pick({"ok", "ok", "ok", "ok", "fail"}, N)} : LPub(Pub(a)) /\ Rec([a |-> "Pub", ans |-> a]) /\ Keep
     \/ \E r \in RateAt(ff, ff.pos + 1) \cup {ff.cur} :
          (LPub(IncLoop(r)) \/ LPub(IncRetry(r)) \/ LIncSpend(r)) /\ Rec([a |-> "Inc"]) /\ Keep
     \/ LDone /\ Rec([a |-> "Done"]) /\ Keep
     \/ LHandle /\ Rec([a |-> "Handle"]) /\ Keep
     \/ \E h \in {hh + 1, hh + 1, hh + 2} : h <= MaxH /\
          \E r \in RateAt(ff, NewPos(ConfAt(h))) \cup {ff.cur} :
             LBump(h, r) /\ Rec([a |-> "Bump", height |-> h]) /\ Keep
     \/ /\ nsp = 0
        /\ \E h \in {hh, hh + 1} : h <= MaxH /\ \E X \in SUBSET cur :
             LSpend(h, X) /\ Rec([a |-> "Spend", height |-> h, ids |-> X]) /\ nsp' = 1

GSpec == GInit /\ [][GNext]_gvars

Terminal == lpc = "idle" /\ pc \in {"gone"} /\ hh >= MaxH
Dump == ((Len(hist) = MaxLen \/ Terminal) /\ Len(hist) > 3) =>
          ndJsonSerialize("b_" \o ToString(TLCGet("stats").traces) \o ".ndjson", hist)
=============================================================================
