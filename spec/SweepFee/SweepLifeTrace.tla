--------------------------- MODULE SweepLifeTrace ---------------------------
(* Trace validation of the retry history: a real UtxoSweeper (real          *)
(* BudgetAggregator, real TxPublisher behind it) is driven through blocks;   *)
(* the publisher's lines are those of SweepFeeTrace (Init, Create, Check,    *)
(* Inc, Pub, Done, Bump: every call on the fee function, every tx handed to  *)
(* the wallet, every BumpResult), the sweeper's lines are                    *)
(*   Offer   the inputs put into UtxoSweeper.inputs: per input budget, the   *)
(*           weight the aggregator's filter prices it at, value; the         *)
(*           configuration / environment                                     *)
(*   LReq    a collector round (updateSweeperInputs + sweepPendingInputs)    *)
(*           that built a request: the request as in a Req line of           *)
(*           SweepFeeTrace plus ids, the inputs (numbers) it sweeps          *)
(*   NoReq   a round that built nothing                                      *)
(*   Spend   the publisher is told that the inputs ids were spent by a tx it *)
(*           does not know (handleUnknownSpent; its Increment follows as an  *)
(*           Inc line, the result as a Done line)                            *)
(*   Handle  UtxoSweeper.handleBumpEvent returned: per input the state and   *)
(*           the starting rate the sweeper now keeps (field copies)          *)
(* Every line must be the corresponding SweepLife action and what the        *)
(* sweeper keeps must equal the model's inp (ConformLife); the property's    *)
(* invariants are checked on the model state the trace drives.               *)
EXTENDS SweepLife, Json
VARIABLE l

Trace == ndJsonDeserialize("trace.ndjson")
T     == Trace[l]
Last  == Trace[l - 1]

TInit == LInit /\ l = 1
Is(a) == l <= Len(Trace) /\ Trace[l].a = a /\ l' = l + 1

Reset == /\ Is("Reset")
         /\ ff' = NoFF /\ rq' = NoRq /\ pc' = "none" /\ mode' = "initial" /\ tx' = NoTx
         /\ pub' = NoPub /\ res' = NoRes /\ last' = NoLast /\ g' = G0
         /\ inp' = <<>> /\ uni' = NoUni /\ cur' = {} /\ curp' = 0 /\ lpc' = "start" /\ hh' = 0 /\ spent' = {}

SeqMax(q) == IF Len(q) = 0 THEN 0 ELSE CHOOSE m \in {q[i] : i \in 1..Len(q)} : \A j \in 1..Len(q) : q[j] <= m
SeqSum(q) == LET F[i \in 0..Len(q)] == IF i = 0 THEN 0 ELSE F[i - 1] + q[i] IN F[Len(q)]
SeqSame(q) == IF Len(q) > 0 /\ \A i \in 1..Len(q) : q[i] = q[1] THEN q[1] ELSE -1
Col(q, k) == [i \in 1..Len(q) |-> q[i][k]]
Range(q) == {q[i] : i \in 1..Len(q)}

ReqOf(t) == [budget |-> t.budget, weight |-> t.weight, maxrate |-> t.maxrate, relay |-> t.relay,
             totalin |-> t.totalin, reqout |-> t.reqout + t.xout, dust |-> t.dust, deadline |-> t.deadline,
             sopt |-> t.sopt, est |-> t.est, prevmax |-> SeqMax(t.prevs),
             cfgvb |-> t.cfgvb, inbudget |-> SeqSum(t.budgets), indeadline |-> SeqSame(t.deadlines),
             pweight |-> SeqSum(Col(t.parents, 1)), pfee |-> SeqSum(Col(t.parents, 2)),
             xout |-> t.xout, xbudget |-> t.xbudget]

TNext ==
  \/ Reset
  \/ Is("Offer") /\ LOffer([n |-> Len(T.lbudgets), budgets |-> T.lbudgets, wus |-> T.lwus, values |-> T.lvalues,
                            maxvb |-> T.cfgvb, relay |-> T.relay, est |-> T.est, deadline |-> T.deadline], T.height)
  \/ Is("LReq")  /\ Len(T.ids) > 0 /\ LRound(T.height, Range(T.ids), ReqOf(T))
  \/ Is("NoReq") /\ LRound(T.height, {}, rq)
  \/ Is("Init")  /\ T.ct = ConfAt(T.height) /\ LInitFF(T.height, T.maxallowed, T.delta)
  \/ Is("Create") /\ LPub(BeginCreate)
  \/ Is("Check") /\ LPub(Check(T.ans))
  \/ Is("Inc")   /\ (LPub(IncLoop(T.cur)) \/ LPub(IncRetry(T.cur)) \/ LIncSpend(T.cur))
  \/ Is("Pub")   /\ LPub(Pub(T.ans))
  \/ Is("Done")  /\ LDone
  \/ Is("Bump")  /\ T.ct = ConfAt(T.height) /\ LBump(T.height, T.cur)
  \/ Is("Spend") /\ LSpend(T.height, Range(T.ids))
  \/ Is("Handle") /\ LHandle
  \/ (l = Len(Trace) + 1 /\ UNCHANGED <<allvars, l>>)

TSpec == TInit /\ [][TNext]_<<allvars, l>>

-----------------------------------------------------------------------------
Live == l > 1 /\ Last.a # "Reset"
B(x) == IF x THEN 1 ELSE 0

(* what the sweeper keeps for every input after it handled a result / built  *)
(* a request.  handleBumpEventTxUnknownSpend runs its round inside the same  *)
(* call: the states on that Handle line are those after the round and are    *)
(* compared on the LReq / NoReq line that follows (the rates on both).       *)
ConformLife == (Live /\ Last.a \in {"Handle", "LReq", "NoReq"}) =>
  /\ Len(Last.states) = uni.n /\ Len(Last.starts) = uni.n
  /\ \A i \in 1..uni.n : /\ (Last.a = "Handle" /\ lpc = "round") \/ Last.states[i] = inp[i].st
                         /\ inp[i].st # "gone" => Last.starts[i] = inp[i].start
(* the result the sweeper handled is the one the publisher delivered *)
ConformHandle == (Live /\ Last.a = "Handle") => Last.event = res.event /\ Last.rate = res.rate

(* as in SweepFeeTrace *)
ConformFF == (Live /\ Last.a \in {"Init", "Inc", "Bump"}) =>
  /\ Last.live = B(ff.live)
  /\ Last.err = last.err
  /\ Last.inc = B(last.inc)
  /\ ff.live => /\ Last.start = ff.start /\ Last.end = ff.end /\ Last.width = ff.width
                /\ Last.pos = ff.pos /\ Last.cur = ff.cur /\ Last.delta = ff.delta
ConformCreate == (Live /\ Last.a = "Create") => Last.rate = ff.cur
ConformTx == (Live /\ Last.a \in {"Check", "Pub"}) =>
  /\ tx.err = "none"
  /\ Last.rate = tx.rate /\ Last.fee = tx.fee /\ Last.change = tx.change
  /\ Last.nin = Len(Last.ins)
ConformDone == (Live /\ Last.a = "Done") =>
  /\ Last.event = res.event
  /\ Last.err = res.err
  /\ Last.rate = res.rate
TxSpendsAll == (Live /\ Last.a \in {"Check", "Pub"}) =>
  /\ \A i \in 1..Last.nin : \E k \in 1..Len(Last.ins) : Last.ins[k] = i
  /\ \A k \in 1..Len(Last.ins) : Last.ins[k] \in 1..Last.nin
  /\ \A j, k \in 1..Len(Last.ins) : j # k => Last.ins[j] # Last.ins[k]
  /\ Last.nin = Cardinality(cur)
TxWithinBudget == (Live /\ Last.a \in {"Check", "Pub"}) =>
  /\ Last.fee <= rq.budget
  /\ Last.fee <= rq.inbudget + rq.xbudget
  /\ Last.rate <= rq.maxrate \/ StartTrigger
TxPaysOfferedRate == (Live /\ Last.a \in {"Check", "Pub"} /\ ff.live) =>
  /\ Last.fee >= FeeFor(ff.cur, rq.weight)
  /\ Last.fee <= FeeFor(ff.cur, rq.weight) + AbsorbMax(rq, Last.change)
(* the property on the values of the NEXT line, before the model takes the   *)
(* step (a line the model cannot follow at all is a deadlock; these name the *)
(* clause): the ending rate a fresh fee function gets is the ceiling of the  *)
(* request - the lesser of the budget over the size of the tx that is BUILT  *)
(* (all its outputs) and the maximum - and no function starts above its      *)
(* ending rate, whatever the source of the starting rate                     *)
NextEndIsCeilingOfBuiltTx ==
  (l <= Len(Trace) /\ Trace[l].a = "Init" /\ pc = "ready") => Trace[l].maxallowed \in EndRates
NextStartCappedAtEnd ==
  (l <= Len(Trace) /\ Trace[l].a \in {"New", "Init"} /\ Trace[l].live = 1 /\ ClampStart) => Trace[l].start <= Trace[l].end
=============================================================================
