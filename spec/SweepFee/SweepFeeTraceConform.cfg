SPECIFICATION TSpec
CONSTANTS
  RoundCeil = FALSE
  ClampStart = TRUE
  PNew = {}
  PReq = {}
  PConf = {}
  PHeights = {}
  PAns = {}
  PPub = {}
INVARIANTS SweepMaxIsConfigured SweepBudgetIsInputs SweepDeadlineIsInputs ConformFF ConformCreate ConformTx ConformDone
CHECK_DEADLOCK TRUE
