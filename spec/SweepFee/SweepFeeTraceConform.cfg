SPECIFICATION TSpec
CONSTANTS
  RoundCeil = FALSE
  ClampStart = TRUE
  PNew = {}
  PReq = {}
  PConf = {}
  PHeights = {}
  PAns = {}
  PPub = {}
INVARIANTS ConformFF ConformCreate ConformTx ConformDone
CHECK_DEADLOCK TRUE
