SPECIFICATION TSpec
CONSTANTS
  RoundCeil = TRUE
  ClampStart = FALSE
  PNew = {}
  PReq = {}
  PConf = {}
  PHeights = {}
  PAns = {}
  PPub = {}
INVARIANTS ConformFF ConformCreate ConformTx ConformDone
CHECK_DEADLOCK TRUE
