SPECIFICATION TSpec
CONSTANTS
  RoundCeil = FALSE
  ClampStart = TRUE
  PNew = {}
  PReq = {}
  PConf = {}
  PHeights = {}
  PAns = {}
  PPub = {}
INVARIANTS SweepMaxIsConfigured SweepBudgetIsInputs SweepDeadlineIsInputs SweepExtraIsRequired ConformFF ConformCreate ConformTx ConformDone
  NextEndIsCeilingOfBuiltTx NextStartCappedAtEnd
CHECK_DEADLOCK TRUE
