SPECIFICATION Spec
CONSTANTS
  RoundCeil = FALSE
  ClampStart = TRUE
  PNew <- MCNew
  PReq <- Empty
  PConf <- MCConf
  PHeights <- Empty
  PAns = {"ok"}
  PPub = {"ok"}
  Relay = 253
  Ends = {200, 253, 254, 255, 256, 260, 263, 300, 753, 1253, 1254, 2753, 5000}
  Sopts = {0, 253, 256, 5000}
  Ests = {0, 100, 253, 258, 6000}
  Cts = {0, 1, 2, 3, 4, 5, 6, 9}
  ConfSet = {}
  Weights = {}
  Budgets = {}
  MaxVbs = {}
  InSets = {}
  Conf0 = 0
  H0 = 0
INVARIANTS TypeOK FFMonotone FFBelowEnd FFAboveFloor FFCeilAtWidth FFCeilByDeadline FFShape RegroupStart RegroupNoDecrease PubRegroupNoDecrease
CHECK_DEADLOCK FALSE
