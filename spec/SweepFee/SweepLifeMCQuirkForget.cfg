SPECIFICATION LSpec
CONSTANTS
  RoundCeil = FALSE
  ClampStart = TRUE
  ForgetOnZero = TRUE
  StrandFilter = FALSE
  PNew = {}
  PReq = {}
  PConf = {}
  PHeights = {}
  PAns = {"ok", "lowfee", "reject"}
  PPub = {"ok", "fail"}
  LBSel = {1, 2, 3}
  LEsts = {1000}
  LRelay = 253
  LMaxVb = 1000
  LConf0 = 4
  LH0 = 100
INVARIANTS LifeNoDecreaseAll
CHECK_DEADLOCK FALSE
