SPECIFICATION Spec
CONSTANTS
  RoundCeil = FALSE
  ClampStart = TRUE
  PNew <- Empty
  PReq <- MCReq
  PConf <- Empty
  PHeights <- MCFarHeights
  PAns = {"ok"}
  PPub = {"ok"}
  Relay = 253
  Ends = {}
  Sopts = {0, 600}
  Ests = {0, 260, 9000}
  Cts = {}
  ConfSet = {}
  Weights = {600}
  Budgets = {1000, 2003}
  MaxVbs = {1, 2, 400}
  InSets = {1, 8}
  Conf0 = 1009
  H0 = 100
INVARIANTS TypeOK FFMonotone FFBelowEnd FFAboveFloor FFCeilAtWidth FFCeilByDeadline FFShape
  PubFeeLeBudget PubRateLeMax PubRateLeCeil PubNoDust PubSomeOutput PubMonotone PubAboveFloor PubFeeExact PubCeilByDeadline RegroupStart RegroupNoDecrease PubRegroupNoDecrease
  SweepMaxIsConfigured SweepBudgetIsInputs SweepDeadlineIsInputs SweepExtraIsRequired PubRateLeCfgMax PubFeeLeInputBudget PubTxRateLeCfgMax
CHECK_DEADLOCK FALSE
