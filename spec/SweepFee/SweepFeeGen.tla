----------------------------- MODULE SweepFeeGen -----------------------------
(* Behaviour generator: SweepFee + the history of the actions taken, dumped  *)
(* as one NDJSON schedule per simulated behaviour.  A behaviour is either a  *)
(* standalone fee function walked with arbitrary conf targets, or one bump   *)
(* request driven through blocks (initial broadcast, fee bumps, mempool and  *)
(* publish answers, retries after a failure).                                *)
(* The weight of the sweep tx of an input-set shape is written down here     *)
(* (measured on the code: 166 + 273/p2wkh input + 231/p2tr input + 445/input *)
(* with a required p2wsh output, +280 for a commitment anchor input, +48 for *)
(* a p2tr change script); the executor reports the real weight and the trace *)
(* spec uses that one.  A request is SweepReq(config, input set): the        *)
(* schedule gives the sweeper's configuration (maxvb, sat/vb) and the inputs *)
(* (budgets, rates offered before, deadline, an optional anchor input with   *)
(* unconfirmed-parent info pw/pf at a rate below the floor, inside the ramp  *)
(* or above the ceiling); the executor drives the real UtxoSweeper with it.  *)
(* A request may come from a node with an aux sweeper (custom channels): xo  *)
(* is the value of the extra output it adds to every sweep tx (172 wu, part  *)
(* of the weight of the tx that is built) and xb its extra budget.  The      *)
(* configured maximum / the ending rate of a standalone function may lie     *)
(* BELOW the relay fee (a mempool-min-fee spike), with conf targets on both  *)
(* sides of 1008 (where the relay fee itself is the starting rate).          *)
(* Main = TRUE keeps the generated inputs inside the domain on which the     *)
(* code is expected to satisfy the property (see the deviations in SweepFee);*)
(* the triggers of the deviations are replayed from spec/SweepFee/directed.  *)
EXTENDS SweepFee, Json
CONSTANTS MaxLen, Main, Mode     \* Mode: "ff" | "pub" | "both"
VARIABLES hist, gh, nretry

gvars == <<vars, hist, gh, nretry>>
Rec(e) == hist' = Append(hist, e)

Weight(nk, nt, nr, na, dust) == 166 + (IF dust = 330 THEN 48 ELSE 0) + 273 * nk + 231 * nt + 445 * nr + 280 * na

-----------------------------------------------------------------------------
GRelays == {253, 1000}
GDiffs  == {0, 1, 2, 3, 5, 7, 10, 12, 100, 999, 1000, 1001, 1500, 2500, 12345, 1000000}
GCts    == {0, 1, 2, 3, 4, 5, 7, 9, 13, 17, 49, 1007, 1008, 1009, 1011}

(* random picks: an operator with a state-dependent argument is evaluated at *)
(* every use (TLC caches constant-level definitions), and a variable bound   *)
(* over a singleton set holds one definite value                             *)
Pick(S, k) == RandomElement(IF k >= 0 THEN S ELSE {})
N == Len(hist)

(* conf targets offered next: the next one, two or three blocks, the same    *)
(* block, a larger one, the last blocks before the deadline                  *)
NextCts == LET c == g.minct IN
           {x \in {c - 1, c - 2, c - 3, c, c + 2, c \div 2, 1, 0, ff.width + 1, ff.width + 2} : x >= 0}

-----------------------------------------------------------------------------
Shapes == { <<1, 0, 0, 294>>, <<2, 1, 0, 330>>, <<1, 0, 1, 294>>, <<8, 0, 0, 294>>,
            <<16, 0, 0, 294>>, <<1, 1, 2, 330>>, <<1, 0, 1, 330>>,
            <<10, 0, 0, 294>> }   \* 2896 wu = 16*181: budgets 181*odd give exact .5 ties of budget*1000/weight
H0 == 1000

ReqInMain(p) ==
  /\ p.sopt < 0 \/ (p.sopt >= p.relay /\ p.sopt <= CeilingOf(p))
  /\ ~CeilTriggerOf(p)

NextHeights == {h \in {gh, gh + 1, gh + 2, gh + 3, rq.deadline - 1, rq.deadline, rq.deadline + 1} : h >= gh}

-----------------------------------------------------------------------------
GInit == Init /\ hist = <<>> /\ gh = H0 /\ nretry = 0

Keep == UNCHANGED <<gh, nretry>>

GNext ==
  /\ Len(hist) < MaxLen
  /\ \/ /\ Mode \in {"ff", "both"} /\ pc = "none"
        /\ \E r \in {Pick(GRelays, N)} : \E s0 \in {Pick({0, 7, 4747}, N)} : \E d \in {Pick(GDiffs, N)} :
           \E c \in {Pick(GCts, N)} : \E ex \in {Pick({TRUE, FALSE, FALSE}, N)} :
           LET s == r + s0 IN
           \E e \in {Pick({-1, r - 1, r, s, s + d + 5, s + d}, N)} :
           \E so \in {IF Main THEN s ELSE Pick({s, s, s + d + 1, s + d + 3000, r - 1}, N)} :
           \E mr \in {Pick({s + d, s + d, s + d, s + d, r - 3, r \div 2}, N)} :  \* ... or an ending rate below the relay fee
           LET p == [maxrate |-> mr, ct |-> c, sopt |-> IF ex THEN -1 ELSE so,
                     est |-> IF ex THEN e ELSE 0, relay |-> r] IN
           \E dl \in DeltaChoices(p.maxrate, p.ct, p.sopt, p.est, p.relay) :
              New(p, dl) /\ Rec([a |-> "New", maxrate |-> p.maxrate, ct |-> p.ct, sopt |-> p.sopt,
                                 est |-> p.est, relay |-> p.relay]) /\ Keep
     \/ /\ pc = "ff" /\ ff.live
        /\ \/ \E r \in RateAt(ff, ff.pos + 1) \cup {ff.cur} : IncFF(r) /\ Rec([a |-> "Inc"]) /\ Keep
           \/ \E ct \in NextCts : \E r \in RateAt(ff, NewPos(ct)) \cup {ff.cur} :
                 BumpFF(ct, r) /\ Rec([a |-> "Bump", ct |-> ct, height |-> -1]) /\ Keep
     \/ /\ Mode \in {"pub", "both"} /\ pc = "none"
        /\ \E sh \in {Pick(Shapes, N)} : \E r \in {Pick(GRelays, N)} :
           \E e \in {Pick({r + 47, 2000, 50000}, N)} :            \* the budget rate aimed at
           \E pa \in {Pick({0, 0, 1, 2, 3, 4}, N)} :                \* unconfirmed parent: none / class 1..4
           \E xo \in {IF pa = 0 THEN Pick({0, 0, 0, 330, 1000}, N) ELSE 0} :   \* aux sweeper: extra output / none
           \E xb \in {IF xo > 0 THEN Pick({0, 3, 40}, N) ELSE 0} :           \* ... and its extra budget
           LET na == IF pa = 0 THEN 0 ELSE 1
               w == Weight(sh[1], sh[2], sh[3], na, sh[4]) + (IF xo > 0 THEN 172 ELSE 0) IN
           \E b \in {IF w = 2896 THEN Pick({181 * 5, 181 * 33, 181 * 801, FeeFor(e, w) + 1}, N)
                      ELSE FeeFor(e, w) + Pick(0..(w \div 1000 + 2), N)} :
           \E mv \in {Pick({(e \div 2 + r) \div KwPerVb + 1, (e \div 2 + r) \div KwPerVb + 1, 1000, 1000, 1, 3}, N)} : \* sweeper.maxfeerate, sat/vb (1, 3: below the relay fee)
           LET ro == sh[3] * 20000
               m  == KwPerVb * mv IN
           \E ti \in {ro + xo + 330 * na + Pick({b + 100000, FeeFor(e \div 2 + r, w) + 200, b + sh[4] - 1, b \div 2,
                                  FeeFor(r, w) + sh[4] - 150,          \* change below dust from the start
                                  FeeFor(r + 60, w) + sh[4] + 5}, N)} : \* ... from the second or third rate on
           \E c0 \in {Pick({0, 1, 2, 3, 5, 1009}, N)} :
           \E so \in {Pick({-1, -1, r, (r + Min(e, m)) \div 2, Min(e, m), Min(e, m) + 77, r - 3}, N)} :
           \E es \in {Pick({-1, r - 1, r + 5, 1000000}, N)} :
           \E pt \in {Pick(1..4, N)} : \E ag \in {Pick({0, 1}, N)} :
           LET sq == IF Main /\ ~(so < 0 \/ (so >= r /\ so <= Min(BudgetRateFloor(b, w), m))) THEN -1 ELSE so
               n  == sh[1] + sh[2] + sh[3]
               lo == Max(1, sq \div 2)
               \* the rates the inputs of the set were offered before (0: never): the largest one first,
               \* last, first followed by lower ones, in the middle between lower ones and fresh inputs
               pv == [i \in 1..n |->
                        IF sq < 0 THEN 0
                        ELSE CASE pt = 1 -> IF i = 1 THEN sq ELSE 0
                               [] pt = 2 -> IF i = n THEN sq ELSE 0
                               [] pt = 3 -> IF i = 1 THEN sq ELSE lo
                               [] pt = 4 -> IF i = (n + 1) \div 2 THEN sq ELSE IF i % 2 = 0 THEN lo ELSE 0]
               \* the parent of the anchor: pays nothing / below the floor / inside the ramp / above the ceiling
               pw == CASE pa = 0 -> 0 [] pa = 1 -> 724 [] pa = 2 -> 1116 [] pa = 3 -> 2500 [] pa = 4 -> 724
               pf == CASE pa = 0 -> 0 [] pa = 1 -> 0 [] pa = 2 -> FeeFor(r \div 2, pw)
                       [] pa = 3 -> FeeFor((r + Min(e, m)) \div 2, pw) [] pa = 4 -> FeeFor(Min(e, m) + 1000, pw)
               q == SweepReq([maxvb |-> mv, relay |-> r, est |-> es],
                             [weight |-> w, totalin |-> ti, reqout |-> ro, dust |-> sh[4], inbudget |-> b - xb,
                              indeadline |-> H0 + c0, prevmax |-> IF sq > 0 THEN sq ELSE 0,
                              pweight |-> pw, pfee |-> pf, xout |-> xo, xbudget |-> xb]) IN
           /\ Main => ReqInMain(q)
           /\ Request(q)
           /\ Rec([a |-> "Req", nk |-> sh[1], nt |-> sh[2], nr |-> sh[3], budget |-> q.budget,
                   maxrate |-> q.maxrate, relay |-> q.relay, totalin |-> q.totalin, reqout |-> ro,
                   xout |-> xo, xbudget |-> xb,
                   dust |-> q.dust, deadline |-> q.deadline, sopt |-> q.sopt, est |-> q.est,
                   weight |-> q.weight, prevs |-> pv, agg |-> ag,
                   maxvb |-> mv, na |-> na, pw |-> pw, pf |-> pf])
           /\ gh' = H0 /\ nretry' = 0
     \/ /\ nretry < 2 /\ Retry /\ Rec([a |-> "Retry"]) /\ nretry' = nretry + 1 /\ UNCHANGED gh
     \/ \E h \in {gh, gh + 1} : \E e \in EndRates :
          \E dl \in DeltaChoices(e, ConfAt(h), rq.sopt, rq.est, rq.relay) :
             InitFF(h, e, dl) /\ Rec([a |-> "Init", height |-> h]) /\ gh' = h /\ UNCHANGED nretry
     \/ BeginCreate /\ Rec([a |-> "Create"]) /\ Keep
     \/ \E a \in {"ok", "lowfee", "minfee", "reject"} : Check(a) /\ Rec([a |-> "Check", ans |-> a]) /\ Keep
     \/ \E r \in RateAt(ff, ff.pos + 1) \cup {ff.cur} : (IncLoop(r) \/ IncRetry(r)) /\ Rec([a |-> "Inc"]) /\ Keep
     \/ \E a \in {"ok", "fail"} : Pub(a) /\ Rec([a |-> "Pub", ans |-> a]) /\ Keep
     \/ Done /\ Rec([a |-> "Done"]) /\ Keep
     \/ /\ pc = "mon"
        /\ \E h \in NextHeights : \E r \in RateAt(ff, NewPos(ConfAt(h))) \cup {ff.cur} :
             Bump(h, r) /\ Rec([a |-> "Bump", ct |-> ConfAt(h), height |-> h]) /\ gh' = h /\ UNCHANGED nretry

GSpec == GInit /\ [][GNext]_gvars

Terminal == \/ pc = "gone" /\ ~(nretry < 2 /\ res.event = "Failed" /\ res.rate > 0)
            \/ pc = "ff" /\ ~ff.live
Dump == ((Len(hist) = MaxLen \/ Terminal) /\ Len(hist) > 1) =>
          ndJsonSerialize("b_" \o ToString(TLCGet("stats").traces) \o ".ndjson", hist)
=============================================================================
