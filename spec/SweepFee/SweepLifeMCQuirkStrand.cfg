SPECIFICATION LSpec
CONSTANTS
  RoundCeil = FALSE
  ClampStart = TRUE
  ForgetOnZero = FALSE
  StrandFilter = TRUE
  PNew = {}
  PReq = {}
  PConf = {}
  PHeights = {}
  PAns = {"ok", "lowfee", "reject"}
  PPub = {"ok", "fail"}
  LBSel = {1, 2, 3}
  LEsts = {1000}
  LRelay = 253
  LMaxVb = 1000
  LConf0 = 4
  LH0 = 100
INVARIANTS LifeNotStrandedAll
CHECK_DEADLOCK FALSE
