#!/bin/bash
# usage: tools_matrix.sh <seeded-id> <check-id>...   runs the checks with the seeded patch compiled in through the overlay
ID=$1; shift
cd /verif
for C in "$@"; do
  out=$(VERIF_OUT_SUFFIX=_m$ID VERIF_MUTATION=/verif/seeded/$ID/patch.diff ./vcheck $C --tier quick --seed ${SEED:-1} 2>&1)
  rc=$?
  key=$(echo "$out" | grep -m1 "key=" | sed 's/ ::.*//' | cut -c1-120)
  rm -rf /verif/out/${C}_m$ID
  echo "MATRIX $ID $C rc=$rc $key"
done
