#!/usr/bin/env python3
"""Writes the table of registered checks (from MANIFEST.json + evidence/*.json) into DESIGN.md between the STATUS markers."""
import json, os
V = os.path.dirname(os.path.abspath(__file__))
m = json.load(open(V + '/MANIFEST.json'))
kf = json.load(open(V + '/known_findings.json'))['findings']
rows = ["| id | spec module(s) | level | quick: wall s / model states / impl. events / traces | fixes found by it | known findings it reports |", "|---|---|---|---|---|---|"]
mods = {"C01": "Channel, ChannelGhost", "C02": "Channel (+dack, LiveRefresh)", "C03": "Channel, LinkResync", "C04": "Channel + ChannelCloseMC/Trace", "C05": "Channel + ChannelCloseMC/Trace (+watcher, anchors)",
        "C06": "Shachain, Channel (+RecvBadRev)", "C07": "CircuitMap, SwitchForward, SwitchResponse", "C08": "Forwarding(Rules), SwitchAck, Mailbox, CloseKeys", "C09": "ForwardPolicy(Rules/Apa/Aux), SwitchPolicy, SwitchInbound", "C10": "TlvStream(Tok), WireLaws, WireExt",
        "C11": "Transport", "C12": "ChainActions, ChainActionsHist, ChainActionsConf", "C13": "Arbitrator, BreachJustice, SwitchRes", "C14": "TxNotifier, CatchUp", "C15": "InvoiceRegistry", "C16": "PaymentStore",
        "C17": "CoopClose (tx, neg, rbf, rbfm, peer)", "C18": "SweepFee, SweepLife", "C19": "Route (+RouteGenD)", "C20": "Gossip, GossipProof"}
for c in m['checks']:
    pid = c['property_id']
    ev = {}
    p = V + '/evidence/%s.json' % pid
    if os.path.exists(p):
        ev = json.load(open(p))
    cov = ev.get('coverage', {})
    fixed = [f"{f.get('id')} `{f.get('commit')}`" for f in kf if f['property'] == pid and f['kind'] == 'fixed']
    known = [f.get('id') for f in kf if f['property'] == pid and f['kind'] == 'finding']
    rows.append("| %s | %s | %s | %s (%s) / %s / %s / %s | %s | %s |" % (
        pid, mods.get(pid, ''), c['level_claimed']['category'], ev.get('wall_s', '?'), ev.get('tier', '?'), cov.get('states', '?'),
        cov.get('evaluations', '?'), cov.get('traces_validated_against_impl', '?'), ', '.join(fixed) or '—', ', '.join(known) or '—'))
s = open(V + '/DESIGN.md').read()
a, b = '<!-- STATUS-BEGIN -->', '<!-- STATUS-END -->'
blk = a + "\n" + '\n'.join(rows) + "\n" + b
if a in s:
    s = s[:s.index(a)] + blk + s[s.index(b) + len(b):]
else:
    k = s.index('**Deviations from the plan in §2–§5.**')
    s = s[:k] + "**Registered checks** (all 20 properties; numbers from the evidence files of the last registered run; regenerate with `tools_status.py`):\n\n" + blk + "\n\n" + s[k:]
open(V + '/DESIGN.md', 'w').write(s)
print('\n'.join(rows[:5]))
