#!/usr/bin/env python3
"""usage: tools_mkseeder.py <PID> <round-letter>  -> creates scratch worktree /tmp/seed_<pid><r> with SEEDER_TASK.md (property text only + sites already used)"""
import json, sys, glob, subprocess, os
pid, r = sys.argv[1], sys.argv[2]
W = f"/tmp/seed_{pid.lower()}{r}"
prop = [json.loads(l) for l in open('/verif/properties.jsonl') if json.loads(l)['id'] == pid][0]
if not os.path.exists(W):
    subprocess.check_call(['git', '-C', '/repo', 'worktree', 'add', '--detach', W, 'HEAD'], stdout=subprocess.DEVNULL)
text = f"**{prop['id']} — {prop['title']}**\n\n{prop['statement']}\n\nQuantifier: {prop.get('quantifier','')}\n\nWhy tests cannot settle it: {prop.get('why_tests_cant','')}\n\nAnchors: {json.dumps(prop.get('anchors'))}"
used = []
for d in sorted(glob.glob(f'/verif/seeded/c{pid[1:]}*_*')):
    m = json.load(open(d + '/meta.json'))
    used.append('- ' + m['summary'][:140].replace('\n', ' '))
brief = open('/verif/SEEDER_BRIEF.md').read().split('\n', 2)[2]
brief = brief.replace('{W}', W).replace('{PROPERTY}', text).replace('{ID}', pid)
brief += ("\n\n## Sites already taken\n\nEarlier contributors already submitted changes at the following sites; choose **different functions / different mechanisms** "
          "(other files and layers the property touches are welcome — look at the anchors and at the callers/callees of the anchored code):\n\n" + '\n'.join(used) + '\n')
open(W + '/SEEDER_TASK.md', 'w').write(brief)
print(W)
