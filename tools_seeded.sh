#!/bin/bash
# usage: tools_seeded.sh <worktree> <k> <id>   -- confirm a seeded change (demo fails with / passes without) and store it under /verif/seeded/<id>/
set -u
export PATH=/root/go/pkg/mod/golang.org/toolchain@v0.0.1-go1.25.13.linux-amd64/bin:$PATH GOTOOLCHAIN=local GOFLAGS=-mod=mod GOPROXY=off
W=$1; K=$2; ID=$3
S=$W/seeded/$K
OUT=/verif/seeded/$ID
mkdir -p $OUT
cd $W || exit 2
git checkout -q -- . ; git clean -fdq -e seeded
PKG=$(head -3 $S/demo_test.go.txt | grep -o -E '\./[a-z/]+/' | head -1)
[ -z "$PKG" ] && PKG=./lnwallet/
RUN=$(grep -o -E 'func (Test[A-Za-z0-9_]+)' $S/demo_test.go.txt | sed 's/func //' | paste -sd'|')
TAGS=""
head -12 $S/demo_test.go.txt | grep -q "test_db_sqlite" && TAGS="-tags test_db_sqlite"
cp $S/demo_test.go.txt $W/$PKG/zz_seeded_demo_test.go
RUNDIR=$W
if [ "$PKG" = "./tlv/" ]; then RUNDIR=$W/tlv; PKG=./; fi
head -12 $S/demo_test.go.txt | grep -q -- "-tags dev" && TAGS="$TAGS -tags dev"
r0=$(cd $RUNDIR && timeout 900 go test -vet=off -count=1 $TAGS -run "^($RUN)\$" $PKG 2>&1 | tail -1)
git apply $S/patch.diff || { echo "patch does not apply"; exit 2; }
r1=$(cd $RUNDIR && timeout 900 go test -vet=off -count=1 $TAGS -run "^($RUN)\$" $PKG 2>&1 | grep -E "^(ok|FAIL|---)" | tr '\n' ' ')
git checkout -q -- . ; git clean -fdq -e seeded
echo "$ID clean: $r0 | patched: $r1"
cp $S/patch.diff $S/demo_test.go.txt $S/meta.json $OUT/
python3 - "$OUT" "$r0" "$r1" "$PKG" "$RUN" <<'PY'
import json,sys
out,r0,r1,pkg,run=sys.argv[1:]
m=json.load(open(out+'/meta.json'))
m['confirmed_by_main']={'demo_on_clean_tree':r0,'demo_with_patch':r1,'pkg':pkg,'run':run}
json.dump(m,open(out+'/meta.json','w'),indent=1)
PY
